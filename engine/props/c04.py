"""C04 (clauses): wiring of the requirement graph - which requirement feeds which evaluator, how the evaluation context of a decision is composed,
what a decision service returns, where invocation arguments are evaluated.  Values are not decided."""
import json
import re

from facts import find_hir, strip

LEVEL = "other"
CRATES_QUICK = ["dmntk_model_evaluator", "dmntk_model", "dmntk_feel", "dmntk_feel_evaluator", "dmntk_feel_parser"]
CRATES_THOROUGH = None
ME = "dmntk_model_evaluator::"
B = ME + "builders::"
FILE_DEC = "model-evaluator/src/builders/decision.rs"

CONSUMERS = {
    B + "business_knowledge_model::BusinessKnowledgeModelEvaluator::evaluate": "knowledge-model",
    B + "decision_service::DecisionServiceEvaluator::evaluate_as_function_definition": "decision-service-function",
    B + "decision::DecisionEvaluator::evaluate": "decision",
    B + "input_data::InputDataEvaluator::evaluate": "input-data",
}
# requirement accessor -> consumers its references must reach at evaluation time
REQUIRED = {"required_knowledge": {"knowledge-model", "decision-service-function"}, "required_decision": {"decision"}, "required_input": {"input-data"}}


def local_name(e):
    """name of the local at the root of a receiver / argument expression (through &, &mut, .iter(), .clone(), deref)"""
    e = strip(e)
    while True:
        k = e.get("k")
        if k == "Path" and e.get("res") == "local":
            return e.get("name")
        if k == "MethodCall" and e.get("method") in ("iter", "iter_mut", "clone", "as_ref", "as_mut", "deref", "borrow", "into_iter", "to_owned", "as_slice"):
            e = strip(e["recv"])
        elif k in ("AddrOf", "Unary", "Cast"):
            e = strip(e.get("e") or e.get("a"))
        else:
            return None


def enclosing_accessor(parents):
    """the required_* accessor whose `if let Some(href) = x.required_K()` (or match) encloses a node"""
    for p in reversed(parents):
        if p.get("k") in ("If", "Match"):
            c = p.get("c") if p.get("k") == "If" else None
            src = c["e"] if c is not None and c.get("k") == "Let" else (p.get("e") if p.get("k") == "Match" else None)
            if src is not None:
                for mc, _ in find_hir(src, lambda x: x.get("k") == "MethodCall" and x.get("method") in REQUIRED):
                    return mc["method"]
    return None


def run(F, rep, tier):
    rep.explanation = ("The value of a decision for all models and inputs is not decided. Decided is the wiring in the evaluator builders, read off the type-checked HIR "
                       "with resolved callees: (1) the references collected from required knowledge / required decisions / required inputs are the ones iterated when the "
                       "corresponding evaluator (knowledge model and decision-service function, decision, input data) is run; (2) the context the decision logic sees is "
                       "composed as required inputs zip (required knowledge and decisions overwritten by the caller's input data) and never contains the caller's input "
                       "context wholesale (an input that is not required cannot reach the logic); (3) a decision service returns exactly its output decisions' values, "
                       "and evaluates encapsulated and output decisions over the same prepared input; (4) arguments of boxed invocations and function definitions are "
                       "evaluated in the caller's scope before the callee's parameter context is pushed.")
    rep.assumptions += ["the evaluators called are the ones the registries hold for the referenced ids (registry contents are built by the same builders)",
                        "FeelContext::zip / overwrite have the meaning of their names (zip adds entries, overwrite replaces values of existing keys only)"]
    decision_wiring(F, rep)
    context_ops_meaning(F, rep)
    decision_service_rule(F, rep)
    invocation_rule(F, rep)
    # boxed decision tables are one of the composed expression kinds: their hit-policy rules (C03) and the coercion of every invocable's result to
    # its declared output type (R11.3 sinks are part of C11) are the neighbouring properties; the decision-table rules are re-evaluated here as premises
    from props import c03, c13
    expl = rep.explanation
    c03.run(F, rep, tier)
    # boxed contexts, invocations, function definitions and relations push / pop the scope they are given: each must leave it as found (R13.1 on the builders)
    c13.scope_neutral_premise(F, rep, "dmntk_model_evaluator", 8)
    # premise (C01): the scope primitives the wiring relies on - lookups answer from the innermost context, the single-context accessors (peek, set_entry) work on the top
    from props import c01
    c01.lookup_order_rule(F, rep)
    rep.explanation = expl + " The decision-table rules of C03 (R03.x) and the scope-neutrality rule of C13 (R13.1, model-evaluator bodies) are re-evaluated as premises."


# ======================================================================================================
def decision_wiring(F, rep):
    r1 = rep.rule("R04.1", "decision: references from required knowledge / decisions / inputs reach the knowledge-model + decision-service, decision and input-data evaluators respectively")
    r2 = rep.rule("R04.2", "decision: the scope of the logic receives the values of required inputs, knowledge and decisions, and the caller's input context only through overwrite / the required evaluators")
    name = B + "decision::build_decision_evaluator"
    h = F.hir.get(name)
    if h is None:
        rep.missing_anchor(r1, name)
        return
    # label propagation over MIR: labels are born at the required_*() accessors and read at the identifier argument of the evaluators
    import taint
    accs = {"required_knowledge", "required_decision", "required_input"}
    tt = taint.Taint(F, is_source=lambda p: p.split("::")[-1] if p.split("::")[-1] in accs and "dmntk_model" in p else None,
                     is_sink=lambda p: (CONSUMERS[p], [1]) if p in CONSUMERS else None)
    tt.analyse(name)
    sites = sum(len(v) for k, v in tt.sink_sites.items())
    rep.floor(r1, "evaluator call sites reached from the decision evaluator", sites, 4)
    rep.analysed["R04.1 bodies analysed"] = len(tt.analysed)
    for acc, want in sorted(REQUIRED.items()):
        key = "wiring:%s" % acc
        got = {kind for (kind, i), labels in tt.sinks.items() if acc in labels}
        if got == want:
            rep.ok(r1, key, "%s() -> %s" % (acc, sorted(got)))
        else:
            rep.violation(r1, key, "references from %s() reach the identifier argument of %s; the requirement graph prescribes %s" % (acc, sorted(got) or "no evaluator", sorted(want)), FILE_DEC)
    for (kind, i), labels in sorted(tt.sinks.items()):
        allowed = {a for a, w in REQUIRED.items() if kind in w}
        key = "consumer:%s" % kind
        if labels and not labels <= allowed:
            rep.violation(r1, key, "the %s evaluator is run for identifiers taken from %s; only %s may feed it" % (kind, sorted(labels), sorted(allowed)), FILE_DEC)
        else:
            rep.ok(r1, key, "fed by %s" % sorted(labels))
    # ---------------- R04.2 what may reach the scope of the decision logic (label propagation with sanitisers)
    evals = [n for n, b in F.bodies.items() if b.get("kind") == "closure" and n.startswith(name + "::{closure") and b.get("parent") == name and b["argc"] == 4
             and "FeelContext" in F.ty(b, b["locals"][2]) and F.ty(b, b["locals"][4]).startswith("&mut") and "FeelContext" in F.ty(b, b["locals"][4])]
    if len(evals) != 1:
        rep.missing_anchor(r2, "the evaluator closure (input context, model evaluator, &mut output context) of build_decision_evaluator")
        return
    OVERWRITE = "dmntk_feel::context::FeelContext::overwrite"
    results = {B + "input_data::InputDataEvaluator::evaluate": "required-input-values"}
    outputs = {B + "business_knowledge_model::BusinessKnowledgeModelEvaluator::evaluate": (4, "knowledge-results"),
               B + "decision_service::DecisionServiceEvaluator::evaluate_as_function_definition": (3, "knowledge-results"),
               B + "decision::DecisionEvaluator::evaluate": (4, "decision-results")}
    t2 = taint.Taint(F, is_source=lambda p: results.get(p), is_sink=lambda p: None,
                     sanitiser=lambda p: p in CONSUMERS or p == OVERWRITE,
                     arg_source=lambda p: outputs.get(p),
                     param_source=lambda n, i: "caller-input" if n == evals[0] and i == 2 else None,
                     dest_sink=lambda ty: "scope" if ty == "dmntk_feel::scope::Scope" else None)
    t2.analyse(name)
    got = t2.sinks.get(("scope", 0), set())
    if not t2.sink_sites.get("scope"):
        rep.undecided(r2, "decision:context", "no call producing a dmntk_feel::scope::Scope was found in the decision evaluator")
    else:
        probs = []
        if "caller-input" in got:
            probs.append("the caller's input context flows into the scope of the decision logic other than through FeelContext::overwrite (existing keys only) or the evaluators of "
                         "required inputs / decisions / knowledge: entries that are not required become visible to the logic")
        for lab, what in (("required-input-values", "required inputs"), ("knowledge-results", "required knowledge (knowledge models, decision services)"), ("decision-results", "required decisions")):
            if lab not in got:
                probs.append("the values of the %s do not reach the scope of the decision logic" % what)
        if probs:
            rep.violation(r2, "decision:context", "; ".join(probs), FILE_DEC)
        else:
            rep.ok(r2, "decision:context", "scope receives %s; the caller's context only through overwrite / evaluators" % sorted(got))
    # the override of knowledge / decision results by the caller's input data (overwrite) is present
    ow = [c for c, _ in find_hir(h["body"], lambda x: x.get("k") == "MethodCall" and x.get("callee") == OVERWRITE)]
    if ow:
        rep.ok(r2, "decision:override", "%d overwrite call(s)" % len(ow))
    else:
        rep.undecided(r2, "decision:override", "no FeelContext::overwrite call: whether input data override knowledge / decision results is not decided")


def context_ops_meaning(F, rep):
    """the two context operations R04.2 relies on: zip only adds missing entries / overwrite only replaces existing ones"""
    rid = rep.rule("R04.3", "FeelContext::overwrite replaces values of keys that exist only (it never adds a key); FeelContext::zip adds entries of the other context")
    C = "dmntk_feel::context::FeelContext::"
    ow, zp = F.hir.get(C + "overwrite"), F.hir.get(C + "zip")
    if ow is None or zp is None:
        rep.missing_anchor(rid, C + "overwrite / zip")
        return
    # overwrite: every insertion is guarded by a test that the key is already present
    ins = find_hir(ow["body"], lambda x: x.get("k") == "MethodCall" and x.get("method") in ("insert", "set_entry", "entry", "extend", "append"))
    guards = find_hir(ow["body"], lambda x: x.get("k") == "MethodCall" and x.get("method") in ("contains_key", "contains_entry", "get_mut", "get"))
    getmut = find_hir(ow["body"], lambda x: x.get("k") == "MethodCall" and x.get("method") == "get_mut")
    if (ins and not guards) or (not ins and not getmut):
        rep.violation(rid, "overwrite", "FeelContext::overwrite %s: input data whose names are not in the requirement closure would be added to the decision's context"
                      % ("inserts entries without testing that the key exists" if ins else "does not update existing entries"), "%s:%s" % (ow["file"], ow["line"]))
    else:
        rep.ok(rid, "overwrite", "updates existing keys only")
    ins = find_hir(zp["body"], lambda x: x.get("k") == "MethodCall" and x.get("method") in ("insert", "set_entry", "entry", "extend", "append"))
    if not ins:
        rep.violation(rid, "zip", "FeelContext::zip does not add the entries of the other context", "%s:%s" % (zp["file"], zp["line"]))
    else:
        rep.ok(rid, "zip", "adds the other context's entries")


# ======================================================================================================
def decision_service_rule(F, rep):
    rid = rep.rule("R04.4", "decision service: input / encapsulated / output decisions and input data are evaluated for the identifiers of their own lists; input decisions see the caller's input, "
                            "encapsulated and output decisions the prepared input (caller's input + input decisions' results); the result is made of entries picked from the evaluated context, never the whole of it")
    import taint
    name = B + "decision_service::build_decision_service_evaluator"
    h = F.hir.get(name)
    if h is None or name not in F.bodies:
        rep.missing_anchor(rid, name)
        return
    FILE = h["file"]
    evals = [n for n, b in F.bodies.items() if b.get("kind") == "closure" and b.get("parent") == name and b["argc"] == 4
             and "FeelContext" in F.ty(b, b["locals"][2]) and F.ty(b, b["locals"][4]).startswith("&mut") and "FeelContext" in F.ty(b, b["locals"][4])]
    if len(evals) != 1:
        rep.missing_anchor(rid, "the evaluator closure (input context, model evaluator, &mut output context) of build_decision_service_evaluator")
        return
    DEC = B + "decision::DecisionEvaluator::evaluate"
    INP = B + "input_data::InputDataEvaluator::evaluate"
    lists = {"input_decisions", "encapsulated_decisions", "output_decisions", "input_data"}
    GET = "dmntk_feel::context::FeelContext::get_entry"
    COERCED = "dmntk_feel::types::FeelType::coerced"
    tt = taint.Taint(F,
                     is_source=lambda p: ("list:" + p.split("::")[-1]) if p.startswith("dmntk_model::model::DecisionService::") and p.split("::")[-1] in lists else ("entry" if p == GET else None),
                     is_sink=lambda p: ("decision", [1, 2]) if p == DEC else ("input-data", [1, 2]) if p == INP else ("coerced", [1]) if p == COERCED else None,
                     sanitiser=lambda p: p in (DEC, INP, GET),
                     arg_source=lambda p: (4, lambda arg_ls: {"results-of:" + l[5:] for l in arg_ls[1] if l.startswith("list:")} | {"evaluated-context"}) if p == DEC else None,
                     param_source=lambda n, i: "caller-input" if n == evals[0] and i == 2 else None)
    tt.analyse(name)
    rep.analysed["R04.4 bodies analysed"] = len(tt.analysed)
    probs = []
    dec_sites = {k: v for k, v in tt.site_args.items() if k[0] == "decision"}
    inp_sites = {k: v for k, v in tt.site_args.items() if k[0] == "input-data"}
    if len(dec_sites) < 3 or not inp_sites:
        rep.floor(rid, "evaluator call sites reached from the decision service evaluator", len(dec_sites) + len(inp_sites), 4)
        return
    by_list = {}
    for k, a in dec_sites.items():
        ids = {l[5:] for l in a.get(1, set()) if l.startswith("list:")}
        for l in ids:
            by_list.setdefault(l, []).append((k, a, ids))
    for want in ("input_decisions", "encapsulated_decisions", "output_decisions"):
        if want not in by_list:
            probs.append("the %s of the service are not evaluated by the decision evaluator" % want.replace("_", " "))
    if "input_data" in by_list:
        probs.append("identifiers of the service's input data are handed to the decision evaluator")
    for k, a in inp_sites.items():
        ids = {l[5:] for l in a.get(1, set()) if l.startswith("list:")}
        if ids != {"input_data"}:
            probs.append("the input-data evaluator is run for identifiers of %s (expected: the service's input data)" % (sorted(ids) or "no list"))
    for k, a, ids in by_list.get("input_decisions", []):
        if "caller-input" not in a.get(2, set()):
            probs.append("input decisions are not evaluated on the caller's input data (line %s)" % k[2])
        if any(l.startswith("results-of:") for l in a.get(2, set())):
            probs.append("input decisions are evaluated on a context that holds decision results (line %s)" % k[2])
    for want in ("encapsulated_decisions", "output_decisions"):
        for k, a, ids in by_list.get(want, []):
            if len(ids) > 1:
                probs.append("one call evaluates identifiers of several lists %s (line %s)" % (sorted(ids), k[2]))
            if "results-of:input_decisions" not in a.get(2, set()):
                probs.append("%s do not see the results of the input decisions: they must be evaluated on the prepared input (line %s)" % (want.replace("_", " "), k[2]))
    res = tt.sinks.get(("coerced", 1), set())
    if not tt.sink_sites.get("coerced"):
        rep.undecided(rid, "decision-service:result", "no FeelType::coerced call was reached: how the result is formed is not decided")
    else:
        if "evaluated-context" in res:
            probs.append("the whole evaluated context flows into the service's result: values of encapsulated decisions leak into the result, which must consist of the output decisions' values only")
        if "entry" not in res:
            probs.append("no entry picked from the evaluated context (FeelContext::get_entry) reaches the service's result")
    if probs:
        rep.violation(rid, "decision-service", "; ".join(sorted(set(probs))[:5]), FILE)
    else:
        rep.ok(rid, "decision-service", "%d decision / %d input-data evaluation sites: own lists, caller's input -> input decisions -> prepared input -> encapsulated + output decisions; result from picked entries" % (len(dec_sites), len(inp_sites)))


# ======================================================================================================
def invocation_rule(F, rep):
    rid = rep.rule("R04.5", "boxed invocation / function definition: binding and parameter expressions are evaluated in the caller's scope, into a fresh context, before that context is pushed")
    n = 0
    for fn in ("build_invocation_evaluator", "build_function_definition_evaluator"):
        # the function of that name that creates an evaluator closure over a scope (a delegating wrapper of the same name exists for knowledge models)
        found = None
        for k in sorted(F.hir):
            if k.startswith(B) and k.endswith("::" + fn):
                hh = F.hir[k]
                cl = [c for c, _ in find_hir(hh["body"], lambda x: x.get("k") == "Closure" and len(x.get("params", [])) == 1 and x["params"][0].get("t") is not None
                                             and "Scope" in F.ty(hh, x["params"][0]["t"]))]
                if cl:
                    found = (hh, cl[0])
                    break
        if found is None:
            rep.missing_anchor(rid, "%s with an evaluator closure over a scope" % fn)
            continue
        h, clo = found
        sc = clo["params"][0].get("name")
        n += 1
        body = strip(clo["body"])
        # order inside the closure (pre-order = evaluation order for straight-line statements): the per-parameter evaluator calls `e(scope)` made inside a loop /
        # iterator closure, and scope.push
        order = []

        def visit(x, parents):
            if x.get("k") == "MethodCall" and (x.get("callee") or "").endswith("scope::Scope::push"):
                order.append(("push", x.get("l")))
            elif x.get("k") == "Call" and x.get("callee") is None and strip(x.get("f", {})).get("res") == "local" and [local_name(a) for a in x.get("args", [])] == [sc]:
                looped = any(p.get("k") == "Loop" or (p.get("k") == "Closure" and p is not clo) for p in parents)
                order.append(("args" if looped else "call", x.get("l")))
            return True
        from facts import walk_hir
        walk_hir(body, visit)
        kinds = [o[0] for o in order]
        key = "invocation:%s" % fn
        if "args" not in kinds or "push" not in kinds:
            rep.undecided(rid, key, "per-parameter evaluation in a loop or scope.push not found in %s (events: %s)" % (fn, kinds))
        elif max(i for i, k in enumerate(kinds) if k == "args") > kinds.index("push"):
            rep.violation(rid, key, "binding / parameter expressions are evaluated after the parameter context was pushed: a formula sees the parameters instead of the caller's variables of the same name",
                          "%s:%s" % (h["file"], clo.get("l")))
        else:
            rep.ok(rid, key, "arguments evaluated in the caller's scope, then the parameter context is pushed")
    rep.floor(rid, "invocation-style evaluators", n, 2)
