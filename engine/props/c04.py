"""C04 (clauses): wiring of the requirement graph - which requirement feeds which evaluator, how the evaluation context of a decision is composed,
what a decision service returns, where invocation arguments are evaluated.  Values are not decided."""
import json
import re

from facts import find_hir, strip

LEVEL = "other"
CRATES_QUICK = ["dmntk_model_evaluator", "dmntk_model", "dmntk_feel", "dmntk_feel_evaluator"]
CRATES_THOROUGH = None
ME = "dmntk_model_evaluator::"
B = ME + "builders::"
FILE_DEC = "model-evaluator/src/builders/decision.rs"

CONSUMERS = {
    B + "business_knowledge_model::BusinessKnowledgeModelEvaluator::evaluate": "knowledge-model",
    B + "decision_service::DecisionServiceEvaluator::evaluate_as_function_definition": "decision-service-function",
    B + "decision::DecisionEvaluator::evaluate": "decision",
    B + "input_data::InputDataEvaluator::evaluate": "input-data",
}
# requirement accessor -> consumers its references must reach at evaluation time
REQUIRED = {"required_knowledge": {"knowledge-model", "decision-service-function"}, "required_decision": {"decision"}, "required_input": {"input-data"}}


def local_name(e):
    """name of the local at the root of a receiver / argument expression (through &, &mut, .iter(), .clone(), deref)"""
    e = strip(e)
    while True:
        k = e.get("k")
        if k == "Path" and e.get("res") == "local":
            return e.get("name")
        if k == "MethodCall" and e.get("method") in ("iter", "iter_mut", "clone", "as_ref", "as_mut", "deref", "borrow", "into_iter", "to_owned", "as_slice"):
            e = strip(e["recv"])
        elif k in ("AddrOf", "Unary", "Cast"):
            e = strip(e.get("e") or e.get("a"))
        else:
            return None


def enclosing_accessor(parents):
    """the required_* accessor whose `if let Some(href) = x.required_K()` (or match) encloses a node"""
    for p in reversed(parents):
        if p.get("k") in ("If", "Match"):
            c = p.get("c") if p.get("k") == "If" else None
            src = c["e"] if c is not None and c.get("k") == "Let" else (p.get("e") if p.get("k") == "Match" else None)
            if src is not None:
                for mc, _ in find_hir(src, lambda x: x.get("k") == "MethodCall" and x.get("method") in REQUIRED):
                    return mc["method"]
    return None


def run(F, rep, tier):
    rep.explanation = ("The value of a decision for all models and inputs is not decided. Decided is the wiring in the evaluator builders, read off the type-checked HIR "
                       "with resolved callees: (1) the references collected from required knowledge / required decisions / required inputs are the ones iterated when the "
                       "corresponding evaluator (knowledge model and decision-service function, decision, input data) is run; (2) the context the decision logic sees is "
                       "composed as required inputs zip (required knowledge and decisions overwritten by the caller's input data) and never contains the caller's input "
                       "context wholesale (an input that is not required cannot reach the logic); (3) a decision service returns exactly its output decisions' values, "
                       "and evaluates encapsulated and output decisions over the same prepared input; (4) arguments of boxed invocations and function definitions are "
                       "evaluated in the caller's scope before the callee's parameter context is pushed.")
    rep.assumptions += ["the evaluators called are the ones the registries hold for the referenced ids (registry contents are built by the same builders)",
                        "FeelContext::zip / overwrite have the meaning of their names (zip adds entries, overwrite replaces values of existing keys only)"]
    decision_wiring(F, rep)
    context_ops_meaning(F, rep)
    decision_service_rule(F, rep)
    invocation_rule(F, rep)
    # boxed decision tables are one of the composed expression kinds: their hit-policy rules (C03) and the coercion of every invocable's result to
    # its declared output type (R11.3 sinks are part of C11) are the neighbouring properties; the decision-table rules are re-evaluated here as premises
    from props import c03
    expl = rep.explanation
    c03.run(F, rep, tier)
    rep.explanation = expl + " The decision-table rules of C03 (R03.x) are re-evaluated as premises."


# ======================================================================================================
def decision_wiring(F, rep):
    r1 = rep.rule("R04.1", "decision: references from required knowledge / decisions / inputs reach the knowledge-model + decision-service, decision and input-data evaluators respectively")
    r2 = rep.rule("R04.2", "decision: logic context = required inputs zip (knowledge & decision results overwritten by the caller's inputs); the caller's input context never enters it wholesale")
    name = B + "decision::build_decision_evaluator"
    h = F.hir.get(name)
    if h is None:
        rep.missing_anchor(r1, name)
        return
    # which vector collects which requirement kind
    vec_kind = {}
    for c, par in find_hir(h["body"], lambda x: x.get("k") == "MethodCall" and x.get("method") in ("push", "extend", "insert") and "Vec" in (x.get("callee") or "")):
        ln = local_name(c["recv"])
        acc = enclosing_accessor(par)
        if ln and acc:
            vec_kind.setdefault(ln, set()).add(acc)
    # let v: Vec<_> = requirements.iter().filter_map(|r| r.required_X()).collect()
    for st, _ in find_hir(h["body"], lambda x: x.get("k") == "LetStmt" and "e" in x and x["p"].get("k") == "Bind"):
        accs = {mc["method"] for mc, _ in find_hir(st["e"], lambda x: x.get("k") == "MethodCall" and x.get("method") in REQUIRED)}
        if accs and find_hir(st["e"], lambda x: x.get("k") == "MethodCall" and x.get("method") == "collect"):
            vec_kind.setdefault(st["p"]["name"], set()).update(accs)
    # which vector is iterated for which consumer (inside the evaluator closure)
    consumed = {}
    sites = 0
    for c, par in find_hir(h["body"], lambda x: x.get("k") in ("MethodCall", "Call") and (x.get("callee") or "") in CONSUMERS):
        sites += 1
        kind = CONSUMERS[c["callee"]]
        src = None
        for p in reversed(par):
            if p.get("k") == "MethodCall" and p.get("method") in ("for_each", "map", "filter_map", "try_for_each", "fold"):
                src = local_name(p["recv"])
                break
            if p.get("k") == "Loop" or (p.get("k") == "Match" and p.get("src") == "ForLoopDesugar"):
                it = p.get("e")
                if it is not None:
                    for a in strip(it).get("args", []) or [it]:
                        src = src or local_name(a)
                if src:
                    break
        consumed.setdefault(src, set()).add(kind)
    rep.floor(r1, "evaluator call sites in the decision evaluator", sites, 4)
    ok_all = True
    for acc, want in REQUIRED.items():
        vecs = [v for v, ks in vec_kind.items() if acc in ks]
        key = "wiring:%s" % acc
        if not vecs:
            rep.violation(r1, key, "no vector collects the references of %s()" % acc, FILE_DEC)
            ok_all = False
            continue
        got = set()
        for v in vecs:
            got |= consumed.get(v, set())
        mixed = [v for v in vecs if len(vec_kind[v]) > 1]
        if mixed:
            rep.violation(r1, key, "the vector %s collects references of several requirement kinds %s" % (mixed[0], sorted(vec_kind[mixed[0]])), FILE_DEC)
            ok_all = False
        elif got != want:
            rep.violation(r1, key, "references from %s() are handed to %s; the requirement graph prescribes %s" % (acc, sorted(got) or "no evaluator", sorted(want)), FILE_DEC)
            ok_all = False
        else:
            rep.ok(r1, key, "%s -> %s" % (vecs, sorted(got)))
    # ---------------- R04.2 context composition inside the evaluator closure
    clos = [c for c, _ in find_hir(h["body"], lambda x: x.get("k") == "Closure" and len(x.get("params", [])) == 3)]
    if not clos:
        rep.missing_anchor(r2, "evaluator closure (input, model evaluator, output) in build_decision_evaluator")
        return
    clo = clos[0]
    p_in = clo["params"][0].get("name")
    # contexts: KCTX = output argument of the knowledge / decision consumers; ICTX = receiver of set_entry fed by the input-data consumer
    kctx, ictx = set(), set()
    for c, par in find_hir(clo["body"], lambda x: x.get("k") in ("MethodCall", "Call") and (x.get("callee") or "") in CONSUMERS):
        kind = CONSUMERS[c["callee"]]
        args = ([c["recv"]] if c.get("k") == "MethodCall" else []) + list(c.get("args", []))
        if kind != "input-data":
            ln = local_name(args[-1])
            if ln:
                kctx.add(ln)
        else:
            for p in reversed(par):
                hit = [local_name(s["recv"]) for s, _ in find_hir(p, lambda x: x.get("k") == "MethodCall" and (x.get("callee") or "").endswith("FeelContext::set_entry"))]
                if hit:
                    ictx.update(x for x in hit if x)
                    break
    probs = []
    if len(kctx) != 1 or len(ictx) != 1:
        probs.append("cannot identify one knowledge context and one input context (found %s / %s)" % (sorted(kctx), sorted(ictx)))
    else:
        K, I = list(kctx)[0], list(ictx)[0]
        ops = []
        for c, _ in find_hir(clo["body"], lambda x: x.get("k") == "MethodCall" and re.search(r"FeelContext::(overwrite|zip|extend|merge|append)$", x.get("callee") or "")):
            ops.append((c["method"], local_name(c["recv"]), local_name(c["args"][0]) if c.get("args") else None, c.get("l")))
        if ("overwrite", K, p_in) not in [(m, r, a) for m, r, a, _ in ops]:
            probs.append("the knowledge / decision results (%s) are not overwritten by the caller's input data (%s.overwrite(%s) missing)" % (K, K, p_in))
        if ("zip", I, K) not in [(m, r, a) for m, r, a, _ in ops]:
            probs.append("the required inputs (%s) are not combined with the knowledge / decision results by %s.zip(&%s)" % (I, I, K))
        for m, r, a, line in ops:
            if a == p_in and m != "overwrite":
                probs.append("the caller's whole input context is merged in by %s.%s(%s) at line %s: inputs that are not required reach the decision logic" % (r, m, p_in, line))
            if (m, r, a) not in (("overwrite", K, p_in), ("zip", I, K)):
                probs.append("unexpected context operation %s.%s(%s) at line %s" % (r, m, a, line)) if a != p_in or m == "overwrite" else None
        # the scope handed to the logic derives from I only
        scopes = [st for st, _ in find_hir(clo["body"], lambda x: x.get("k") == "LetStmt" and "e" in x and "Scope" in (F.ty(h, x["p"].get("t")) if x["p"].get("t") is not None else ""))]
        srcs = {local_name(strip(st["e"]).get("recv") or (strip(st["e"]).get("args") or [{}])[0]) for st in scopes}
        if not scopes or srcs != {I}:
            probs.append("the scope of the decision logic is built from %s, expected from the required-input context %s" % (sorted(x for x in srcs if x) or "?", I))
    if probs:
        rep.violation(r2, "decision:context", "; ".join(probs), FILE_DEC)
    else:
        rep.ok(r2, "decision:context", "scope = %s.zip(%s), %s.overwrite(%s)" % (I, K, K, p_in))


def context_ops_meaning(F, rep):
    """the two context operations R04.2 relies on: zip only adds missing entries / overwrite only replaces existing ones"""
    rid = rep.rule("R04.3", "FeelContext::overwrite replaces values of keys that exist only (it never adds a key); FeelContext::zip adds entries of the other context")
    C = "dmntk_feel::context::FeelContext::"
    ow, zp = F.hir.get(C + "overwrite"), F.hir.get(C + "zip")
    if ow is None or zp is None:
        rep.missing_anchor(rid, C + "overwrite / zip")
        return
    # overwrite: every insertion is guarded by a test that the key is already present
    ins = find_hir(ow["body"], lambda x: x.get("k") == "MethodCall" and x.get("method") in ("insert", "set_entry", "entry", "extend", "append"))
    guards = find_hir(ow["body"], lambda x: x.get("k") == "MethodCall" and x.get("method") in ("contains_key", "contains_entry", "get_mut", "get"))
    getmut = find_hir(ow["body"], lambda x: x.get("k") == "MethodCall" and x.get("method") == "get_mut")
    if (ins and not guards) or (not ins and not getmut):
        rep.violation(rid, "overwrite", "FeelContext::overwrite %s: input data whose names are not in the requirement closure would be added to the decision's context"
                      % ("inserts entries without testing that the key exists" if ins else "does not update existing entries"), "%s:%s" % (ow["file"], ow["line"]))
    else:
        rep.ok(rid, "overwrite", "updates existing keys only")
    ins = find_hir(zp["body"], lambda x: x.get("k") == "MethodCall" and x.get("method") in ("insert", "set_entry", "entry", "extend", "append"))
    if not ins:
        rep.violation(rid, "zip", "FeelContext::zip does not add the entries of the other context", "%s:%s" % (zp["file"], zp["line"]))
    else:
        rep.ok(rid, "zip", "adds the other context's entries")


# ======================================================================================================
def decision_service_rule(F, rep):
    rid = rep.rule("R04.4", "decision service: input decisions run on the caller's input, encapsulated and output decisions on the prepared input; the result is made of the output decisions' values only")
    name = B + "decision_service::build_decision_service_evaluator"
    h = F.hir.get(name)
    if h is None:
        rep.missing_anchor(rid, name)
        return
    FILE = h["file"]
    clos = [c for c, _ in find_hir(h["body"], lambda x: x.get("k") == "Closure" and len(x.get("params", [])) == 3)]
    if not clos:
        rep.missing_anchor(rid, "evaluator closure of the decision service")
        return
    clo = clos[0]
    p_in = clo["params"][0].get("name")
    # which service list each vector holds
    lists = {}
    for st, _ in find_hir(h["body"], lambda x: x.get("k") == "LetStmt" and "e" in x and x["p"].get("k") == "Bind"):
        for mc, _ in find_hir(st["e"], lambda x: x.get("k") == "MethodCall" and x.get("method") in ("input_decisions", "encapsulated_decisions", "output_decisions", "input_data")):
            lists[st["p"]["name"]] = mc["method"]
    DEC = B + "decision::DecisionEvaluator::evaluate"
    runs = {}
    for c, par in find_hir(clo["body"], lambda x: x.get("k") == "MethodCall" and x.get("callee") == DEC):
        src = None
        for p in reversed(par):
            if p.get("k") == "MethodCall" and p.get("method") in ("for_each", "map", "filter_map"):
                src = local_name(p["recv"])
                break
        args = c.get("args", [])
        runs.setdefault(lists.get(src, src), []).append((local_name(args[1]) if len(args) > 1 else None, local_name(args[3]) if len(args) > 3 else None, c.get("l")))
    probs = []
    for k in ("input_decisions", "encapsulated_decisions", "output_decisions"):
        if k not in runs:
            probs.append("the %s of the service are not evaluated" % k.replace("_", " "))
    if not probs:
        ind = runs["input_decisions"][0]
        enc, out = runs["encapsulated_decisions"][0], runs["output_decisions"][0]
        if ind[0] != p_in:
            probs.append("input decisions are evaluated on %s, not on the caller's input data (%s)" % (ind[0], p_in))
        if enc[0] != out[0] or enc[0] == p_in:
            probs.append("encapsulated decisions are evaluated on %s and output decisions on %s: both must see the prepared input (input data + input decisions' results)" % (enc[0], out[0]))
        if enc[1] != out[1]:
            probs.append("encapsulated and output decisions write their results into different contexts (%s / %s)" % (enc[1], out[1]))
        evaluated = out[1]
        # the multi-output result: Value::Context(X) where X is filled only inside an iteration over the output names
        coerced_args = {local_name(c["args"][0]) for c, _ in find_hir(clo["body"], lambda x: x.get("k") == "MethodCall" and (x.get("callee") or "").endswith("FeelType::coerced") and x.get("args"))}
        res = []
        for st, _ in find_hir(clo["body"], lambda x: x.get("k") == "LetStmt" and "e" in x and x["p"].get("k") == "Bind" and x["p"]["name"] in coerced_args):
            e = strip(st["e"])
            if e.get("k") == "Call" and (e.get("callee") or "").endswith("values::Value::Context") and e.get("args"):
                ln = local_name(e["args"][0])
                if ln:
                    res.append(ln)
        if not res:
            probs.append("no Value::Context(..) result is built for several output decisions")
        for r in res:
            if r == evaluated or r == enc[0] or r == p_in:
                probs.append("the service returns the whole context %s: values of encapsulated decisions (or inputs) leak into the result, which must consist of the output decisions' values only" % r)
                continue
            fills = [(c, par) for c, par in find_hir(clo["body"], lambda x: x.get("k") == "MethodCall" and (x.get("callee") or "").endswith("FeelContext::set_entry") and local_name(x["recv"]) == r)]
            if not fills:
                continue
            for c, par in fills:
                inside = False
                for p in reversed(par):
                    if p.get("k") == "MethodCall" and p.get("method") in ("for_each", "map", "filter_map"):
                        src = local_name(p["recv"])
                        # output_names is the vector the output decisions' evaluation pushes into
                        inside = True
                        break
                if not inside:
                    probs.append("the result context %s receives an entry outside the iteration over the output decisions (line %s)" % (r, c.get("l")))
    if probs:
        rep.violation(rid, "decision-service", "; ".join(probs), FILE)
    else:
        rep.ok(rid, "decision-service", "input decisions on the caller's input; encapsulated + output decisions on the prepared input; result filtered to the output decisions")


# ======================================================================================================
def invocation_rule(F, rep):
    rid = rep.rule("R04.5", "boxed invocation / function definition: binding and parameter expressions are evaluated in the caller's scope, into a fresh context, before that context is pushed")
    n = 0
    for fn in ("build_invocation_evaluator", "build_function_definition_evaluator"):
        # the function of that name that creates an evaluator closure over a scope (a delegating wrapper of the same name exists for knowledge models)
        found = None
        for k in sorted(F.hir):
            if k.startswith(B) and k.endswith("::" + fn):
                hh = F.hir[k]
                cl = [c for c, _ in find_hir(hh["body"], lambda x: x.get("k") == "Closure" and len(x.get("params", [])) == 1 and x["params"][0].get("t") is not None
                                             and "Scope" in F.ty(hh, x["params"][0]["t"]))]
                if cl:
                    found = (hh, cl[0])
                    break
        if found is None:
            rep.missing_anchor(rid, "%s with an evaluator closure over a scope" % fn)
            continue
        h, clo = found
        sc = clo["params"][0].get("name")
        n += 1
        body = strip(clo["body"])
        # statement order inside the closure: positions (pre-order index) of the argument evaluation and of scope.push
        order = []

        def visit(x, parents):
            if x.get("k") == "MethodCall" and (x.get("callee") or "").endswith("scope::Scope::push"):
                order.append(("push", x.get("l"), strip(x["args"][0]) if x.get("args") else None))
            elif x.get("k") == "MethodCall" and (x.get("callee") or "").endswith("scope::Scope::set_entry") and local_name(x["recv"]) == sc:
                order.append(("scope-set", x.get("l"), None))
            elif x.get("k") == "MethodCall" and x.get("method") in ("for_each", "map") and find_hir(x, lambda y: y.get("k") == "Call" and y.get("callee") is None and
                                                                                                     strip(y.get("f", {})).get("res") == "local" and [local_name(a) for a in y.get("args", [])] == [sc]):
                order.append(("args", x.get("l"), None))
            return True
        from facts import walk_hir
        walk_hir(body, visit)
        kinds = [o[0] for o in order]
        key = "invocation:%s" % fn
        probs = []
        if "args" not in kinds or "push" not in kinds:
            probs.append("argument evaluation or scope.push not found (shape not recognised: %s)" % kinds)
        else:
            if kinds.index("args") > kinds.index("push"):
                probs.append("the binding / parameter expressions are evaluated after the parameter context was pushed: a formula sees earlier parameters instead of the caller's variables of the same name")
            if "scope-set" in kinds:
                probs.append("parameters are written into the scope entry by entry (scope.set_entry) instead of being collected into a fresh context first")
            pushed = order[kinds.index("push")][2]
            if pushed is not None and not (pushed.get("k") == "Path" and pushed.get("res") == "local"):
                probs.append("the context pushed for the callee is not the one the arguments were collected in")
        if probs:
            rep.violation(rid, key, "; ".join(probs), "%s:%s" % (h["file"], clo.get("l")))
        else:
            rep.ok(rid, key, "arguments evaluated in the caller's scope, then the parameter context is pushed")
    rep.floor(rid, "invocation-style evaluators", n, 2)
