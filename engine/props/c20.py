"""C20: concurrent evaluation - Send/Sync facts, unsafe inventory, FFI privacy, statics, no writers in evaluation, C globals (DESIGN §3 C20)."""
import os
import re
import subprocess

import callgraph
import mirutil
from facts import find_hir, strip

LEVEL = "proof"
CRATES_QUICK = None   # whole workspace: the call graph is cross-crate
CRATES_THOROUGH = None
VERIF = os.path.dirname(os.path.dirname(os.path.dirname(os.path.abspath(__file__))))

EVAL_ENTRIES = [
    "dmntk_model_evaluator::model_evaluator::ModelEvaluator::evaluate_invocable",
    "dmntk_model_evaluator::model_evaluator::ModelEvaluator::evaluate_decision",
    "dmntk_model_evaluator::model_evaluator::ModelEvaluator::evaluate_business_knowledge_model",
    "dmntk_model_evaluator::model_evaluator::ModelEvaluator::evaluate_decision_service",
    "dmntk_workspace::workspace::Workspace::evaluate_invocable",
]
# synchronisation primitives that write shared state or can block/poison (external leaves of the call graph)
WRITER_PATTERNS = [
    (r"std::sync::poison::rwlock::RwLock::<.*>::(write|try_write)$", "RwLock write lock"),
    (r"std::sync::poison::mutex::Mutex::<.*>::(lock|try_lock)$", "Mutex lock"),
    (r"std::sync::(rwlock|mutex)::.*::(write|lock)$", "lock"),
    (r"core::sync::atomic::Atomic.*::(store|swap|fetch_\w+|compare_exchange\w*|compare_and_swap)$", "atomic write"),
    (r"std::thread::local::LocalKey::<.*>::(with|set|replace|with_borrow_mut)$", "thread-local state"),
    (r"(std::sync::once_lock::OnceLock|core::cell::once::OnceCell|std::sync::OnceLock|core::cell::OnceCell)::<.*>::(set|get_or_init|get_or_try_init|take|try_insert|get_mut_or_init)$", "once-cell written during evaluation (a cache filled by the first call)"),
    (r"std::sync::mpsc::", "channel"),
    (r"std::sync::(condvar|barrier)", "condvar/barrier"),
    (r"parking_lot::", "parking_lot primitive"),
]
READ_PATTERNS = [r"std::sync::poison::rwlock::RwLock::<.*>::(read|try_read)$"]
# external payload types of lazily initialised statics that are documented thread-safe (Sync by design)
AUDITED_SYNC_EXTERNALS = {"regex::regex::string::Regex": "regex::Regex is Sync; matching uses a thread-aware cache pool",
                          "regex::Regex": "regex::Regex is Sync"}
# non-const C objects with static storage that are only ever read (audited by reading: used as `const Unit *` / `const uByte *` operands)
AUDITED_C_READONLY = {"uarrone": "decNumber.c: unit array {1}, only passed as the const second operand of decUnitAddSub",
                      "allnines": "decCommon.c: digit array of nines, only read through const uByte * (umsd/ulsd)",
                      "mfctop": "decContext.c: pointer to the endianness probe constant, initialised statically, only dereferenced for reading"}


def run(F, rep, tier):
    rep.explanation = ("Rust guarantees freedom from data races for safe code whose shared types are Send/Sync; the obligations below close the holes: "
                       "the shared types are Send+Sync and the per-evaluation Scope is !Sync (so it cannot be cached inside an evaluator), all unsafe code is "
                       "the decNumber FFI and every FFI call writes only into memory private to the calling frame, no static is mutable, no write lock / mutex / "
                       "atomic write / thread-local is reachable from the evaluation entry points (only read locks, which neither block each other nor poison), "
                       "and the compiled C sources have no mutable globals.")
    rep.trusted_base += ["rustc type checker and auto-trait resolution (nightly 1.97)", "soundness of std, regex, chrono, lazy_static",
                         "decNumber C code writes only through its result/context pointer arguments", "call graph: dyn Fn calls resolved by signature (CHA)"]
    r1 = rep.rule("R20.1", "shared types are Send+Sync, Scope is Send and !Sync")
    r2 = rep.rule("R20.2", "all unsafe code is FFI glue in feel-number/src/dec.rs; no unsafe impl, no static mut, no unsafe fn")
    r3 = rep.rule("R20.3", "every *mut argument of every FFI call points into memory owned by the calling frame")
    r4 = rep.rule("R20.4", "no static has mutable or interior-mutable state (lazy initialisation cell excepted)")
    r5 = rep.rule("R20.5", "no write lock, mutex, atomic write or thread-local is reachable from evaluation; lock acquisitions there are reads")
    r6 = rep.rule("R20.6", "no mutable object with static storage duration in the compiled C files")

    # ---------------- R20.1
    want = [("dmntk_model_evaluator::model_evaluator::ModelEvaluator", True, True), ("dmntk_workspace::workspace::Workspace", True, True),
            ("dmntk_feel::values::Value", True, True), ("dmntk_feel::context::FeelContext", True, True), ("dmntk_feel::function::FunctionBody", True, True),
            ("dmntk_feel::scope::Scope", True, False)]
    for n, ws, wy in want:
        a = F.adts.get(n)
        if a is None or "send" not in a:
            rep.missing_anchor(r1, n)
            continue
        if a["send"] == ws and a["sync"] == wy:
            rep.ok(r1, n, "Send=%s Sync=%s" % (a["send"], a["sync"]))
        else:
            msg = "%s: Send=%s Sync=%s, required Send=%s Sync=%s" % (n, a["send"], a["sync"], ws, wy)
            if n.endswith("Scope") and a["sync"]:
                msg += " (a Sync scope could be shared between threads or cached inside an Fn+Sync evaluator)"
            rep.violation(r1, n, msg, "%s:%s" % (a["file"], a["line"]))
    nalias = 0
    for c in F.crates.values():
        for al in c.get("aliases", []):
            ts = c["types"][al["ty"]]
            if "dyn " in ts and "Fn(" in ts:
                nalias += 1
                if al.get("send") and al.get("sync") and "core::marker::Send" in ts and "core::marker::Sync" in ts:
                    rep.ok(r1, al["name"], "dyn Fn .. + Send + Sync")
                else:
                    rep.violation(r1, al["name"], "evaluator function type %s is not Send + Sync: %s" % (al["name"], ts), None)
    rep.floor(r1, "evaluator function type aliases", nalias, 10)

    # ---------------- R20.2
    nunsafe = 0
    for n, h in F.hir.items():
        for blk, parents in find_hir(h["body"], lambda x: x.get("k") == "Block" and x.get("unsafe")):
            m = blk.get("m")
            if m in ("format!", "format_args!", "write!", "writeln!", "println!", "print!", "eprintln!", "eprint!", "panic!", "assert!", "assert_eq!", "assert_ne!",
                     "unreachable!", "unimplemented!", "todo!", "debug_assert!", "matches!", "vec!") or (m and m.startswith("desugaring")):
                continue   # std macro internals (fmt::Arguments::new is an unsafe fn)
            if m in ("lazy_static!", "__lazy_static_internal!", "__lazy_static_create!"):
                continue   # lazy_static's own expansion (trusted crate)
            nunsafe += 1
            key = "unsafe:%s" % n
            if not h["file"].endswith("feel-number/src/dec.rs"):
                rep.violation(r2, key, "unsafe block outside the FFI module: %s" % n, "%s:%s" % (h["file"], blk.get("l")))
                continue
            calls = [c for c, _ in find_hir(blk, lambda x: x.get("k") in ("Call", "MethodCall") and x.get("callee"))]
            bad = [c["callee"] for c in calls if not (c["callee"] in F.foreign or c["callee"].startswith("core::ffi::c_str::CStr::from_ptr")
                                                      or not is_unsafe_callee(F, c["callee"]))]
            # calls through a function value inside the block: only typed `extern "C" fn` pointers (a library function handed to a generic helper)
            for c, _ in find_hir(blk, lambda x: x.get("k") == "Call" and not x.get("callee") and "f" in x):
                fty = F.ty(h, strip(c["f"]).get("t")) or ""
                if 'extern "C" fn' not in fty:
                    bad.append("call through a value of type %s" % fty)
            if bad:
                rep.violation(r2, key, "unsafe block calls unsafe non-FFI functions %s" % bad, "%s:%s" % (h["file"], blk.get("l")))
            else:
                rep.ok(r2, key, "only extern \"C\" calls%s" % (" and CStr::from_ptr" if any("from_ptr" in c["callee"] for c in calls) else ""))
    # 30 on the pinned tree; the floor leaves room for FFI wrappers being folded into generic helpers
    rep.floor(r2, "unsafe blocks", nunsafe, 18)
    for im in F.impls:
        if im.get("unsafe") and im["_crate"].startswith("dmntk"):
            if im.get("m") and "derive" in im.get("m", ""):
                continue
            if im.get("trait", "").endswith("TrivialClone"):
                continue
            rep.violation(r2, "unsafe-impl:%s:%s" % (im.get("trait"), im["self_ty"]), "unsafe impl %s for %s" % (im.get("trait"), im["self_ty"]), "%s:%s" % (im["file"], im["line"]))
    for n, f in F.fns.items():
        if f.get("unsafe"):
            rep.violation(r2, "unsafe-fn:%s" % n, "unsafe fn %s" % n, "%s:%s" % (f["file"], f["line"]))
    rep.floor(r2, "extern \"C\" functions", len([x for x in F.foreign.values() if "inputs" in x]), 32)

    # ---------------- R20.3
    ncalls = 0
    for n, b in F.bodies.items():
        if not b["_crate"].startswith("dmntk_feel_number"):
            continue
        B = mirutil.Body(F, b)
        for bi, c in F.body_calls(b):
            p = c["f"].get("p")
            ff = F.foreign.get(p)
            if ff is None and c["f"].get("k") == "fnptr" and c["f"].get("ty") is not None:
                # a library function applied through a typed `extern "C" fn` pointer
                m = re.match(r'^(?:for<[^>]*>\s*)?(?:unsafe\s+)?extern "C" fn\((.*)\)(?:\s*->.*)?$', F.ty(b, c["f"]["ty"]))
                if m:
                    ff = {"sym": "(library function passed as a parameter)", "inputs": [x.strip() for x in m.group(1).split(",")]}
            if ff is None or "inputs" not in ff:
                continue
            ncalls += 1
            for i, (ty, arg) in enumerate(zip(ff["inputs"], c["args"])):
                if not ty.startswith("*mut"):
                    continue
                roots = B.pointer_root(arg)
                key = "%s:%s:arg%d" % (n.split("::")[-1], ff["sym"], i)
                bad = [r for r in roots if r[0] != "local"]
                if not bad:
                    rep.ok(r3, key, "points to local(s) %s of the calling frame" % sorted(r[1] for r in roots))
                elif all(r[0] == "param" for r in bad):
                    # a &mut parameter: exclusive by Rust's aliasing rules, its owner is the caller's frame
                    pty = [B.local_ty(r[1]) for r in bad]
                    if all(t.startswith("&mut") for t in pty):
                        rep.ok(r3, key, "points through a &mut parameter (exclusive borrow)")
                    else:
                        rep.violation(r3, key, "%s passes a pointer derived from shared parameter(s) %s as *mut argument %d of %s" % (n, pty, i, ff["sym"]),
                                      "%s:%s" % (b["file"], c.get("line")))
                else:
                    rep.violation(r3, key, "%s passes memory it does not own (%s) as *mut argument %d of %s: concurrent calls would write the same object"
                                  % (n, sorted(map(str, bad)), i, ff["sym"]), "%s:%s" % (b["file"], c.get("line")))
    rep.floor(r3, "FFI call sites", ncalls, 24)      # 40 on the pinned tree (see the note at the unsafe-block floor)

    # ---------------- R20.4
    nst = 0
    for n, s in F.statics.items():
        if not s["_crate"].startswith("dmntk"):
            continue
        nst += 1
        ts = F.ty(s, s["ty"])
        where = "%s:%s" % (s["file"], s["line"])
        if s.get("mut"):
            rep.violation(r4, n, "static mut %s" % n, where)
            continue
        cells = [d for d in s["deep"] if d.startswith("cell:")]
        if ts.startswith("lazy_static::lazy::Lazy<"):
            payload = ts[len("lazy_static::lazy::Lazy<"):-1]
            a = F.adts.get(payload)
            if a is not None:
                pc = [d for d in a.get("deep", []) if d.startswith("cell:")]
                if pc:
                    rep.violation(r4, n, "lazily initialised static %s holds interior-mutable state (%s)" % (n, payload), where)
                else:
                    rep.ok(r4, n, "Lazy<%s>: payload without interior mutability; the once-cell is the audited exception" % payload)
            elif payload in AUDITED_SYNC_EXTERNALS:
                rep.ok(r4, n, "Lazy<%s>: %s" % (payload, AUDITED_SYNC_EXTERNALS[payload]), how="audited")
            elif payload in ("alloc::string::String",) or payload in mirutil_scalar():
                rep.ok(r4, n, "Lazy<%s>" % payload)
            else:
                rep.violation(r4, n, "lazily initialised static of unaudited external type %s" % payload, where)
        elif cells:
            rep.violation(r4, n, "static %s has interior mutability (%s)" % (n, ts), where)
        else:
            rep.ok(r4, n, ts)
    rep.floor(r4, "statics", nst, 100)

    # ---------------- R20.5
    G = callgraph.CallGraph(F)
    roots = [e for e in EVAL_ENTRIES if e in F.bodies]
    for e in EVAL_ENTRIES:
        if e not in F.bodies:
            rep.missing_anchor(r5, e)
    # also every pub function of dmntk_feel_evaluator::evaluators (evaluate, evaluate_context, ...) run evaluators
    roots += [n for n, b in F.bodies.items() if n.startswith("dmntk_feel_evaluator::evaluators::") and b.get("vis") == "pub"]
    seen, pred = G.reach(roots)
    rep.analysed.update(dict(bodies=len(F.bodies), eval_reachable_bodies=len(seen), deferred_closures=len(G.deferred), dyn_signatures=len(G.coerced_by_sig),
                             unresolved_virtual_calls=len(G.unresolved)))
    rep.floor(r5, "evaluation-reachable bodies", len(seen), 600)
    # R20.7: a call cannot observe another call's intermediate results: the prepared evaluator closures shared by all threads hold no cell
    # (OnceLock / Mutex / RefCell / atomics) in which one evaluation could leave a value for another
    from props import c13
    r7 = rep.rule("R20.7", "the shared evaluator closures capture no interior-mutable state (no cache, once-cell, mutex or atomic) apart from the registries that evaluation only reads")
    c13.capture_rule(F, G, rep, r7, 130)
    nreads = 0
    from props import c12
    wrappers = c12.lock_wrappers(F, "dmntk_")
    for n in sorted(seen):
        # a call of a local wrapper that only acquires the lock it is given counts as the acquisition
        for kind, callee, bi, line in G.edges.get(n, ()):
            if kind == "call" and wrappers.get(callee) == "read" and n not in wrappers:
                nreads += 1
                rep.ok(r5, "%s:read" % n, "read lock (through %s)" % callee.split("::")[-1])
            elif kind == "call" and wrappers.get(callee) == "write" and n not in wrappers:
                rep.violation(r5, "%s:%s" % (n, callee.split("::")[-1]), "a write lock is taken (through %s) in code reachable from evaluation: %s" % (callee, " -> ".join(x.split("::")[-1] for x in G.path(pred, n))),
                              "%s:%s" % (F.bodies[n]["file"], line))
        for (p, bi, line, c) in G.ext_calls.get(n, ()):
            if not p:
                continue
            for pat, what in WRITER_PATTERNS:
                if re.search(pat, p):
                    key = "%s:%s" % (n, p.split("::")[-1])
                    rep.violation(r5, key, "%s (%s) is reachable from evaluation: %s" % (what, p, " -> ".join(x.split("::")[-1] for x in G.path(pred, n))),
                                  "%s:%s" % (F.bodies[n]["file"], line))
            for pat in READ_PATTERNS:
                if re.search(pat, p):
                    nreads += 1
                    rep.ok(r5, "%s:read" % n, "read lock")
    # local functions that take a write lock must not be reachable from evaluation either (covered above through their bodies);
    # additionally RefCell::borrow_mut is only allowed on types that are !Sync (the per-evaluation Scope)
    for n in sorted(seen):
        for (p, bi, line, c) in G.ext_calls.get(n, ()):
            if p and re.search(r"core::cell::RefCell::<.*>::(borrow_mut|try_borrow_mut|replace|swap)$", p):
                owner = n
                if not (owner.startswith("dmntk_feel::scope::Scope::") or owner.startswith("<dmntk_feel::scope::Scope as")):
                    rep.violation(r5, "%s:borrow_mut" % n, "RefCell mutation outside Scope's own methods in evaluation-reachable code", "%s:%s" % (F.bodies[n]["file"], line))
                else:
                    rep.ok(r5, "%s:borrow_mut" % n, "Scope's private RefCell (Scope is !Sync)")
    rep.floor(r5, "read-lock acquisitions in evaluation", nreads, 6)
    for (caller, sig, line) in G.unresolved:
        if caller in seen:
            rep.violation(r5, "unresolved:%s" % caller, "virtual call with signature %s has no known target (call graph incomplete)" % sig, "%s:%s" % (F.bodies[caller]["file"], line))

    # ---------------- R20.6
    if F.c is None:
        rep.missing_anchor(r6, "c_facts.json")
    else:
        for e in F.c.get("errors", []):
            rep.violation(r6, "clang", "clang failed: %s" % e, None)
        nv = 0
        for v in F.c["static_vars"]:
            if v["extern"]:
                continue
            nv += 1
            canon = v["canon"]
            key = "%s:%s" % (v["tu"].split("/")[-1], v["name"])
            if "*" in canon:
                is_const = canon.replace(" ", "").endswith("*const")   # the pointer object itself must be const
            else:
                is_const = canon.startswith("const ") or " const" in canon
            if is_const:
                rep.ok(r6, key, canon)
            elif v["name"] in AUDITED_C_READONLY:
                rep.ok(r6, key, AUDITED_C_READONLY[v["name"]], how="audited")
            else:
                rep.violation(r6, key, "C object `%s %s` has static storage and is not const: shared mutable state behind the FFI" % (v["type"], v["name"]),
                              "feel-number/%s (%s)" % (v["tu"], v["loc"]))
        rep.floor(r6, "C objects with static storage", nv, 28)
        rep.floor(r6, "compiled C files", len(F.c["compiled_files"]), 5)

    if tier == "thorough":
        witnesses(rep)


def is_unsafe_callee(F, callee):
    f = F.fns.get(callee)
    if f is not None:
        return bool(f.get("unsafe"))
    # externals: only a few unsafe std functions are plausible here
    return any(x in callee for x in ("from_raw", "from_ptr", "transmute", "get_unchecked", "from_utf8_unchecked", "offset", "read_volatile", "write_volatile", "assume_init"))


def mirutil_scalar():
    return {"bool", "u8", "u16", "u32", "u64", "usize", "i8", "i16", "i32", "i64", "isize", "char", "&str"}


def witnesses(rep):
    """compile-fail / compile-pass doc-test twins in /verif/witness (thorough tier)"""
    rid = rep.rule("R20.1w", "compile-fail witnesses: sharing a Scope across threads / caching it in an evaluator does not type-check; the compiling twins do")
    wdir = os.path.join(VERIF, "witness")
    if not os.path.isdir(wdir):
        rep.missing_anchor(rid, wdir)
        return
    env = dict(os.environ, CARGO_NET_OFFLINE="true", CARGO_TARGET_DIR=os.path.join(VERIF, ".cache", "witness-target"))
    try:
        import shutil
        shutil.copy(os.path.join(os.environ.get("DMNTK_REPO", "/repo"), "Cargo.lock"), os.path.join(wdir, "Cargo.lock"))
    except Exception:
        pass
    r = subprocess.run(["cargo", "+nightly", "test", "--doc", "--offline"], cwd=wdir, env=env, stdout=subprocess.PIPE, stderr=subprocess.STDOUT, text=True)
    out = r.stdout
    tests = re.findall(r"^test (\S.*?) \.\.\. (\w+)", out, flags=re.M)
    for name, res in tests:
        if res == "ok":
            rep.ok(rid, name, "ok")
        else:
            rep.violation(rid, name, "witness %s: %s" % (name, res), "witness/src/lib.rs")
    if not tests or r.returncode != 0 and not any(res != "ok" for _, res in tests):
        rep.violation(rid, "run", "witness doc-tests did not run: %s" % out[-600:], "witness/")
    rep.floor(rid, "witness doc-tests", len(tests), 8)
