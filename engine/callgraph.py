#!/usr/bin/env python3
"""Whole-workspace call graph over the MIR facts, stitched across crates by name.

Edge kinds:
  call       static call to a local body (Instance::try_resolve'd)
  trait      unresolved trait-method call on a type parameter -> every local impl of that method (CHA)
  immediate  closure created here and not unsized to a `dyn` type: it runs while its creator (or the callee it is handed to) runs
  dyn        virtual call through `dyn Fn..`: every closure / fn item unsized to a dyn type with the same normalised signature
External callees (no local body) are leaves kept per body in `ext_calls`.
Closures unsized to a dyn type are *deferred*: creating them is not a call.
"""
import re
from collections import defaultdict


def norm_dyn(s):
    """normalise a `dyn Fn(..) -> ..` type string: drop binders and lifetime names"""
    s = re.sub(r"for<[^>]*>\s*", "", s)
    s = re.sub(r"'(\{erased\}|[a-z_][a-z0-9_]*)\s*", "", s)
    s = re.sub(r"\s+", " ", s)
    return s.strip()


def dyn_part(tystr):
    """the `dyn ...` component of a (Box/Arc/&) type string, normalised; None if there is none"""
    i = tystr.find("dyn ")
    if i < 0:
        return None
    # cut at the matching closing '>' of the enclosing generic, if any
    depth = 0
    j = i
    while j < len(tystr):
        c = tystr[j]
        if c == "-" and tystr[j:j + 2] == "->":
            j += 2
            continue
        if c in "<(":
            depth += 1
        elif c in ">)":
            if depth == 0:
                break
            depth -= 1
        elif c == "," and depth == 0:
            break
        j += 1
    return norm_dyn(tystr[i:j])


class CallGraph:
    def __init__(self, F):
        self.F = F
        self.edges = defaultdict(list)      # caller -> [(kind, callee, block, line)]
        self.ext_calls = defaultdict(list)  # caller -> [(callee path, block, line, call dict)]
        self.virtual_calls = defaultdict(list)  # caller -> [(dyn sig, block, line)]
        self.unresolved = []
        self.deferred = {}                  # closure name -> set(dyn sigs it is unsized to)
        self.immediate = set()
        self.coerced_by_sig = defaultdict(set)
        self.creator = {}                   # closure -> creating body
        self.impl_index = defaultdict(list)  # "Trait::method" -> [body names]
        self._build()

    # ------------------------------------------------------------------
    def _build(self):
        F = self.F
        self.impl_by_self = defaultdict(list)
        self.impl_names = []
        for name in F.bodies:
            m = re.match(r"^<(.+) as (.+)>::([A-Za-z0-9_]+)$", name)
            if m:
                trait = re.sub(r"<.*>$", "", m.group(2))
                self.impl_index[trait + "::" + m.group(3)].append(name)
                self.impl_names.append(name)
                st = re.sub(r"<.*>$", "", m.group(1).replace("&", "").strip())
                st = re.sub(r"^'[a-z_0-9]+ ", "", st)
                self.impl_by_self[st].append(name)
        # pass 1: closure flows (which closures get unsized to which dyn type)
        for name, b in F.bodies.items():
            self._closure_flow(name, b)
        # pass 2: edges
        for name, b in F.bodies.items():
            types = F.crates[b["_crate"]]["types"]
            for bi, bl in enumerate(b["blocks"]):
                t = bl["t"]
                if t[0] != "call":
                    continue
                c = t[1]
                f = c["f"]
                line = c.get("line")
                k = f.get("k")
                if k == "fnptr":
                    ty = types[f["ty"]] if f.get("ty") is not None else "?"
                    self.virtual_calls[name].append(("fnptr:" + norm_dyn(ty), bi, line))
                    continue
                p = f.get("p")
                orig = f.get("o") or p or ""
                if orig in ("core::ops::function::Fn::call", "core::ops::function::FnMut::call_mut", "core::ops::function::FnOnce::call_once") \
                        and f.get("self_ty") is not None and "dyn " in types[f["self_ty"]]:
                    k = "virtual"
                if k == "virtual":
                    st = types[f["self_ty"]] if f.get("self_ty") is not None else ""
                    sig = dyn_part(st) or norm_dyn(st)
                    self.virtual_calls[name].append((sig, bi, line))
                    continue
                if p in F.bodies:
                    self.edges[name].append(("call", p, bi, line))
                    continue
                if k == "unres_trait":
                    decl = re.sub(r"<.*?>", "", p)
                    cands = self.impl_index.get(p) or self.impl_index.get(decl) or []
                    if cands:
                        for cnd in cands:
                            self.edges[name].append(("trait", cnd, bi, line))
                        continue
                    # Fn/FnMut/FnOnce::call on a type parameter: the closure is an `immediate` edge of whoever created it
                self.ext_calls[name].append((p, bi, line, c))
                for cb in self._callbacks(p or "", f.get("substs") or "", f.get("o") or ""):
                    self.edges[name].append(("callback", cb, bi, line))
            # fn items reified to fn pointers (format_args!, map(fn_name), ...) may run while this body runs
            for st in bl["s"]:
                if st[0] == "A" and st[2][0] == "Cast" and st[2][2][0] == "F" and st[2][2][1] in F.bodies:
                    self.edges[name].append(("callback", st[2][2][1], bi, st[3] if len(st) > 3 else None))
            if t[0] == "call":
                for a in t[1]["args"]:
                    if a[0] == "F" and a[1] in F.bodies:
                        self.edges[name].append(("callback", a[1], bi, t[1].get("line")))
        # closures: immediate edges
        for clo, creator in self.creator.items():
            if clo not in self.deferred and clo in F.bodies:
                self.immediate.add(clo)
                self.edges[creator].append(("immediate", clo, None, F.bodies[clo].get("line")))
        # closures written in the initialiser of a const / static (a table of fn pointers): no body creates them; they are the targets of calls through
        # fn pointers of their own signature
        for clo, b in F.bodies.items():
            if b.get("kind") == "closure" and clo not in self.creator and not b.get("upvars"):
                types = F.crates[b["_crate"]]["types"]
                sig = "fnptr:" + norm_dyn("fn(%s) -> %s" % (", ".join(types[t] for t in b["locals"][2:b["argc"] + 1]), types[b["locals"][0]]))
                self.deferred.setdefault(clo, set()).add(sig)
                self.coerced_by_sig[sig].add(clo)
        # dyn edges
        for name, vcs in self.virtual_calls.items():
            for sig, bi, line in vcs:
                tg = self.coerced_by_sig.get(sig, ())
                if not tg:
                    self.unresolved.append((name, sig, line))
                for clo in tg:
                    self.edges[name].append(("dyn", clo, bi, line))

    CALLBACK_TRAITS = [
        (("clone", "to_vec", "to_owned", "cloned", "extend_from_slice", "resize", "repeat"), ["core::clone::Clone>::clone"]),
        (("eq", "ne", "contains", "dedup", "position", "starts_with", "ends_with", "assert_failed"), ["core::cmp::PartialEq>::eq"]),
        (("cmp", "sort", "max", "min", "lt", "le", "gt", "ge", "partial_cmp", "binary_search", "is_sorted"), ["core::cmp::PartialOrd>::partial_cmp", "core::cmp::Ord>::cmp", "core::cmp::PartialEq>::eq"]),
        (("sum",), ["core::ops::arith::Add>::add"]), (("product",), ["core::ops::arith::Mul>::mul"]),
        (("fmt", "to_string", "format", "write_fmt", "print", "panic_fmt", "expect", "unwrap", "unwrap_err", "expect_err"),
         ["core::fmt::Display>::fmt", "core::fmt::Debug>::fmt"]),
        (("default", "unwrap_or_default", "take", "or_default"), ["core::default::Default>::default"]),
        (("hash", "insert", "get", "contains_key", "remove", "entry"), ["core::hash::Hash>::hash", "core::cmp::PartialEq>::eq", "core::cmp::Ord>::cmp"]),
        (("drop", "drop_in_place", "clear", "truncate", "pop"), ["core::ops::drop::Drop>::drop"]),
    ]

    def _callbacks(self, p, substs, orig):
        """local trait impls that an external generic function may call back into (std blanket impls and container algorithms)"""
        out = []
        F = self.F
        m = re.findall(r"[A-Za-z_][A-Za-z0-9_:]*", substs)
        tys = [x for x in m if x.startswith("dmntk_")]
        leaf = p.split("::")[-1]
        if orig.endswith("convert::Into::into") or p.endswith("convert::Into<U>>::into"):
            parts = self._split_substs(substs)
            if len(parts) >= 2:
                out += self._impls("<%s as core::convert::From<%s>>::from" % (parts[1], parts[0]))
        if orig.endswith("convert::TryInto::try_into") or p.endswith("convert::TryInto<U>>::try_into"):
            parts = self._split_substs(substs)
            if len(parts) >= 2:
                out += self._impls("<%s as core::convert::TryFrom<%s>>::try_from" % (parts[1], parts[0]))
        if leaf == "parse" and "str" in p:
            parts = self._split_substs(substs)
            if parts:
                out += self._impls("<%s as core::str::traits::FromStr>::from_str" % parts[0])
        if not tys:
            return out
        for names, suffixes in self.CALLBACK_TRAITS:
            if leaf in names or any(leaf.startswith(nm + "_") for nm in names):
                for t in tys:
                    for sfx in suffixes:
                        for cand in self.impl_by_self.get(t, ()):
                            if cand.endswith(sfx) or (sfx.split(">::")[0] in cand and cand.endswith("::" + sfx.split("::")[-1])):
                                out.append(cand)
        return out

    def _split_substs(self, s):
        s = s.strip()
        if s.startswith("[") and s.endswith("]"):
            s = s[1:-1]
        parts, depth, cur = [], 0, ""
        for ch in s:
            if ch in "<([":
                depth += 1
            elif ch in ">)]":
                depth -= 1
            if ch == "," and depth == 0:
                parts.append(cur.strip())
                cur = ""
            else:
                cur += ch
        if cur.strip():
            parts.append(cur.strip())
        return [re.sub(r"'[a-z_0-9]+ ", "", x) for x in parts]

    def _impls(self, name):
        if name in self.F.bodies:
            return [name]
        # tolerate reference / lifetime decorations
        bare = name.replace("&", "")
        return [n for n in self.impl_names if n.replace("&", "").replace("'a ", "").replace("'_ ", "") == bare]

    def _closure_flow(self, name, b):
        F = self.F
        types = F.crates[b["_crate"]]["types"]
        val = defaultdict(set)
        moves = []
        casts = []
        fcasts = []
        for bl in b["blocks"]:
            for st in bl["s"]:
                if st[0] != "A":
                    continue
                dst, rv = st[1], st[2]
                d = dst[0]
                if rv[0] == "Agg" and isinstance(rv[1], list) and rv[1][0] == "closure":
                    clo = rv[1][1]
                    self.creator[clo] = name
                    if len(dst) == 1:
                        val[d].add(clo)
                    else:
                        val[d].add(clo)
                elif rv[0] == "Use" and rv[1][0] in ("C", "M"):
                    moves.append((d, rv[1][1][0]))
                elif rv[0] == "Cast":
                    op = rv[2]
                    if op[0] in ("C", "M"):
                        moves.append((d, op[1][0]))
                        if "Unsize" in rv[1]:
                            casts.append((op[1][0], types[rv[3]]))
                        elif "ClosureFnPointer" in rv[1]:
                            # a non-capturing closure coerced to a fn pointer: deferred target of calls through pointers of that type
                            fcasts.append((op[1][0], "fnptr:" + norm_dyn(types[rv[3]])))
                    elif op[0] == "F" and "Unsize" in rv[1] or (op[0] == "F" and "ReifyFnPointer" in rv[1]):
                        # fn item coerced to a fn pointer / dyn: deferred target
                        sig = dyn_part(types[rv[3]]) or ("fnptr:" + norm_dyn(types[rv[3]]))
                        self.coerced_by_sig[sig].add(op[1])
                elif rv[0] == "Agg":
                    for op in rv[2]:
                        if op[0] in ("C", "M"):
                            moves.append((d, op[1][0]))
                elif rv[0] == "Ref":
                    moves.append((d, rv[2][0]))
            t = bl["t"]
            if t[0] == "call":
                c = t[1]
                p = c["f"].get("p", "")
                if p.endswith("::new") and ("Box" in p or "Arc" in p or "Rc" in p) and c["args"]:
                    a = c["args"][0]
                    if a[0] in ("C", "M") and c["dest"]:
                        moves.append((c["dest"][0], a[1][0]))
        changed = True
        n = 0
        while changed and n < 50:
            changed = False
            n += 1
            for d, s in moves:
                if val[s] - val[d]:
                    val[d] |= val[s]
                    changed = True
        for src, ty in casts:
            sig = dyn_part(ty)
            if sig is None:
                continue
            for clo in val[src]:
                self.deferred.setdefault(clo, set()).add(sig)
                self.coerced_by_sig[sig].add(clo)
        for src, sig in fcasts:
            for clo in val[src]:
                self.deferred.setdefault(clo, set()).add(sig)
                self.coerced_by_sig[sig].add(clo)

    # ------------------------------------------------------------------
    def reach(self, roots, kinds=("call", "trait", "immediate", "dyn", "callback")):
        """reachable bodies with a predecessor map (for path reporting)"""
        pred = {}
        seen = set()
        work = []
        for r in roots:
            if r in self.F.bodies and r not in seen:
                seen.add(r)
                pred[r] = None
                work.append(r)
        while work:
            n = work.pop()
            for kind, callee, bi, line in self.edges.get(n, ()):
                if kind not in kinds or callee in seen or callee not in self.F.bodies:
                    continue
                seen.add(callee)
                pred[callee] = (n, kind, line)
                work.append(callee)
        return seen, pred

    def path(self, pred, n, limit=12):
        out = [n]
        while pred.get(n) is not None and len(out) < limit:
            n = pred[n][0]
            out.append(n)
        return list(reversed(out))
