#!/usr/bin/env python3
"""MIR helpers over the JSON facts: definitions of locals, successor/dominator computation, pointer provenance."""
import re
from collections import defaultdict


def successors(t):
    k = t[0]
    if k == "goto":
        return [t[1]]
    if k == "switch":
        return [b for _, b in t[2]] + [t[3]]
    if k == "drop":
        return [x for x in (t[2], t[3]) if x is not None]
    if k == "call":
        c = t[1]
        return [x for x in (c.get("target"), c.get("unwind")) if x is not None]
    if k == "assert":
        c = t[1]
        return [x for x in (c.get("target"), c.get("unwind")) if x is not None]
    return []


def normal_successors(t):
    """successors on non-unwinding paths"""
    k = t[0]
    if k == "goto":
        return [t[1]]
    if k == "switch":
        return [b for _, b in t[2]] + [t[3]]
    if k == "drop":
        return [t[2]]
    if k in ("call", "assert"):
        x = t[1].get("target")
        return [x] if x is not None else []
    return []


class Body:
    def __init__(self, F, b):
        self.F = F
        self.b = b
        self.types = F.crates[b["_crate"]]["types"]
        self.blocks = b["blocks"]
        self.defs = defaultdict(list)     # local -> [(block, stmt index | 'term', kind, payload)]
        for bi, bl in enumerate(self.blocks):
            for si, st in enumerate(bl["s"]):
                if st[0] == "A":
                    self.defs[st[1][0]].append((bi, si, "assign", st))
            t = bl["t"]
            if t[0] == "call" and t[1].get("dest"):
                self.defs[t[1]["dest"][0]].append((bi, "term", "call", t[1]))
        self._dom = None
        self._preds = None

    def local_ty(self, l):
        return self.types[self.b["locals"][l]]

    def is_arg(self, l):
        return 1 <= l <= self.b["argc"]

    def preds(self):
        if self._preds is None:
            p = defaultdict(list)
            for bi, bl in enumerate(self.blocks):
                for s in successors(bl["t"]):
                    p[s].append(bi)
            self._preds = p
        return self._preds

    def dominators(self):
        """immediate dominator sets (iterative, small graphs): dom[b] = set of blocks dominating b"""
        if self._dom is not None:
            return self._dom
        n = len(self.blocks)
        preds = self.preds()
        allb = set(range(n))
        dom = {i: set(allb) for i in range(n)}
        dom[0] = {0}
        changed = True
        # reverse post order
        order = []
        seen = set()

        def dfs(start):
            stack = [(start, iter(successors(self.blocks[start]["t"])))]
            seen.add(start)
            while stack:
                node, it = stack[-1]
                adv = False
                for s in it:
                    if s not in seen and s < n:
                        seen.add(s)
                        stack.append((s, iter(successors(self.blocks[s]["t"]))))
                        adv = True
                        break
                if not adv:
                    order.append(node)
                    stack.pop()
        dfs(0)
        rpo = list(reversed(order))
        while changed:
            changed = False
            for bi in rpo:
                if bi == 0:
                    continue
                ps = [p for p in preds[bi] if p in seen]
                if not ps:
                    continue
                new = set.intersection(*(dom[p] for p in ps)) | {bi}
                if new != dom[bi]:
                    dom[bi] = new
                    changed = True
        for bi in range(n):
            if bi not in seen:
                dom[bi] = {bi}
        self._dom = dom
        self.reachable = seen
        return dom

    # ------------------------------------------------------------------
    def pointer_root(self, op, depth=0, seen=None):
        """where does the memory a pointer/reference operand designates live?
        returns a set of roots: ('local', l) a by-value local of this frame; ('param', l) a reference/pointer parameter;
        ('call', callee) a reference returned by a call; ('static', text); ('unknown', why)"""
        if seen is None:
            seen = set()
        if op[0] == "K":
            return {("static", op[1])}
        if op[0] == "F":
            return {("fn", op[1])}
        if op[0] not in ("C", "M"):
            return {("unknown", "operand")}
        place = op[1]
        return self.place_pointer_root(place, depth, seen)

    def place_pointer_root(self, place, depth, seen):
        l = place[0]
        proj = place[1:]
        if proj and proj[0] == "*":
            # the place is *l ... : memory designated by pointer l
            return self.value_pointer_root(l, depth, seen)
        if proj:
            # a field of local l holding a pointer: treat as the local's own provenance
            return self.value_pointer_root(l, depth, seen)
        return self.value_pointer_root(l, depth, seen)

    def value_pointer_root(self, l, depth, seen):
        """roots of the memory that pointer-typed local l points to"""
        if (l, "v") in seen or depth > 40:
            return set()
        seen.add((l, "v"))
        if self.is_arg(l):
            return {("param", l)}
        out = set()
        for bi, si, kind, st in self.defs.get(l, []):
            if kind == "call":
                p = st["f"].get("p") or "fnptr"
                if re.search(r"::(as_mut_ptr|as_ptr|as_mut_slice|as_mut|as_slice|deref_mut|deref|borrow_mut|as_bytes|as_mut_vec)$", p) and st["args"] \
                        and not p.startswith("<dmntk") and "lazy" not in p.lower():
                    # pointer into the receiver's own storage
                    out |= self.pointer_root(st["args"][0], depth + 1, seen)
                else:
                    out.add(("call", p))
                continue
            rv = st[2]
            k = rv[0]
            if k in ("Ref", "RawPtr"):
                pl = rv[2]
                base = pl[0]
                if len(pl) > 1 and pl[1] == "*":
                    out |= self.value_pointer_root(base, depth + 1, seen)
                else:
                    # address of (a field of) a local variable of this frame
                    if self.is_arg(base):
                        out.add(("local", base))   # by-value parameter owned by this frame
                    else:
                        out.add(("local", base))
            elif k == "Use" or k == "Cast":
                op = rv[1] if k == "Use" else rv[2]
                out |= self.pointer_root(op, depth + 1, seen)
            elif k == "Agg":
                for op in rv[2]:
                    out |= self.pointer_root(op, depth + 1, seen)
            else:
                out.add(("unknown", k))
        if not out:
            out.add(("unknown", "no-def:_%d" % l))
        return out

    def local_value_sources(self, l, depth=0, seen=None):
        """how a by-value local got its value: set of ('call', callee) / ('const', text) / ('agg', kind) / ('copy-of-deref', root...) / ('param', l)"""
        if seen is None:
            seen = set()
        if l in seen or depth > 40:
            return set()
        seen.add(l)
        if self.is_arg(l):
            return {("param", l)}
        out = set()
        for bi, si, kind, st in self.defs.get(l, []):
            if kind == "call":
                out.add(("call", st["f"].get("p") or "fnptr"))
                continue
            rv = st[2]
            k = rv[0]
            if k == "Use":
                op = rv[1]
                if op[0] == "K":
                    out.add(("const", op[1]))
                elif op[0] in ("C", "M"):
                    pl = op[1]
                    if len(pl) == 1:
                        out |= self.local_value_sources(pl[0], depth + 1, seen)
                    else:
                        out.add(("copy-of-place", tuple(map(str, pl))))
            elif k == "Agg":
                out.add(("agg", str(rv[1])))
            elif k == "Cast":
                op = rv[2]
                if op[0] in ("C", "M") and len(op[1]) == 1:
                    out |= self.local_value_sources(op[1][0], depth + 1, seen)
                else:
                    out.add(("cast", rv[1]))
            else:
                out.add((k.lower(),))
        return out
