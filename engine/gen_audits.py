#!/usr/bin/env python3
"""Development tool (not a check): (re)generates tables/audited_sites.json from the audit definitions below.

Each definition is the result of READING the code at the site: (function regex, site regex, reason, guard regexes).
The generator looks the matching sites up in the latest reports (/verif/.cache/reports/<ID>-*.json), and writes
one entry per *exact site key* with the guards that dominate the site today and match the guard regexes; the
checks later require exactly these guards to still dominate the site (an audit whose `if` was deleted is void).
Run:  python3 engine/gen_audits.py        (after running the checks so that the reports exist)
"""
import json
import os
import re
import sys

VERIF = os.path.dirname(os.path.dirname(os.path.abspath(__file__)))

# (function regex, "kind|what" regex, reason, [guard regex that must keep dominating])
DEFS = [
    # ---------------------------------------------------------------- feel: temporal literals
    (r"temporal::(date::)?Feel(Date|DateTime) as core::convert::TryFrom<&str>>::try_from$", r"assert\|OverflowNeg",
     "year is parsed with parse::<i32>() from the unsigned digit group `year` of the date pattern (the sign is a separate group), so year >= 0 and -year cannot be i32::MIN",
     [r"variant:Some"]),
    (r"dt_duration::FeelDaysAndTimeDuration as core::convert::TryFrom<&str>>::try_from$", r"assert\|(Overflow:Add|Overflow:Mul|OverflowNeg)",
     "nanoseconds accumulates at most four terms (u64 value as i128) * constant <= 2^64 * 8.64e13 plus a fraction of a second in nanoseconds (fraction_to_nanos reads at most nine digits: < 10^9): |sum| < 2^112, far inside i128; negation of such a value cannot overflow",
     []),
    # (the addition of two durations is NOT audited: a `for` over `partial[-1] + partial[-1]` doubles a maximal literal past i128 in 17 steps - a known finding since round 15;
    #  the audit of rounds 3..14 argued with "chained additions" and overlooked iteration)
    (r"dt_duration::FeelDaysAndTimeDuration as core::ops::arith::Sub>::sub$", r"assert\|Overflow:Sub",
     "the evaluator's subtraction has no arm for two days-and-time durations (`d1 - d2` is null: incompatible types); Sub is reached only from date-time / time differences and their "
     "zone adjustments, whose operands are bounded by chrono's range (< 2^93 ns) and by literals (< 2^112)",
     []),
    (r"dt_duration::FeelDaysAndTimeDuration as core::ops::arith::Neg>::neg$", r"assert\|OverflowNeg",
     "a duration is never i128::MIN: every constructor bounds |value| below 2^112 (literals) or 2^93 (date-time differences)", []),
    (r"dt_duration::FeelDaysAndTimeDuration::(get_days|get_hours|get_minutes|get_seconds|abs)$", r"call\|core::num::<>::abs",
     "i128::abs only overflows for i128::MIN, which no duration constructor can produce (|value| < 2^112)", []),
    (r"dt_duration::FeelDaysAndTimeDuration::(nano|second)$", r"assert\|Overflow:(Add|Mul)",
     "builder step: i64 argument widened to i128 times 10^9 (< 2^94) added to a value built the same way; only called from subtract() with chrono durations", []),
    (r"temporal::zone::FeelZone::from_captures$", r"assert\|(Overflow:Add|Overflow:Mul|OverflowNeg)",
     "hours, minutes and seconds are parse::<i32>() of two-digit groups of OFFSET_PATTERN ([0-9]{2}): 3600*99 + 60*99 + 99 < 2^19, and the result is >= 0 before the negation",
     [r"variant:None"]),
    (r"temporal::date::FeelDate::today_local$", r"call\|chrono::offset::local::Local::today",
     "Local::today() reads the system clock and the TZ database; chrono documents no panic for it (listed as ambient state, see C13's carve-out)", []),
    (r"dt_duration::FeelDaysAndTimeDuration as core::fmt::Display>::fmt$", r"(call\|core::num::<>::abs|assert\|Overflow:(Sub|Mul))",
     "abs() of a value that is never i128::MIN (|value| < 2^112); then the usual div/mod decomposition: each product q * UNIT is <= the running remainder, so the subtraction cannot underflow nor the product overflow", []),
    (r"ym_duration::FeelYearsAndMonthsDuration( as core::fmt::Display>::fmt|::abs)$", r"(call\|core::num::<>::abs|assert\|Overflow:(Sub|Mul))",
     "the stored month count is never i64::MIN: literals are range-checked on their magnitude before the sign is applied (try_from) and date differences are below 2^37; year * 12 <= |months|", []),
    (r"ym_duration::FeelYearsAndMonthsDuration as core::convert::TryFrom<&str>>::try_from$", r"assert\|OverflowNeg",
     "total_months was produced by i64::try_from of a non-negative i128 sum, so it lies in [0, i64::MAX] and its negation cannot overflow", [r"variant:Some"]),
    (r"decision_table::EvaluatedDecisionTable::get_matching_rules_prioritized$", r"call\|alloc::slice::<>::sort_by",
     "the comparator orders two rules lexicographically by the positions (usize, compared with Ord::cmp) of their output values in the priority lists, a missing position after every "
     "present one: a total preorder, so the sort's total-order check cannot fire (its shape is decided by R03.5)", []),
    # ---------------------------------------------------------------- feel: types / values
    (r"types::FeelType::(is_equivalent|is_conformant)$", r"call\|<>::index",
     "i enumerates one parameter vector and indexes the other; the enclosing `if` established that both vectors have the same length",
     [r"cmp:==:len:len"]),
    (r"values::Values::(insert|remove)$", r"call\|alloc::vec::Vec::<>::(insert|remove)",
     "thin wrapper; both callers (bifs::core::insert_before / remove) check the index against the list length first (their own sites are audited / discharged)", []),
    (r"function::FunctionBody as core::cmp::PartialEq>::eq$", r"call\|core::panicking::panic",
     "generated by #[derivative(PartialEq)]: the arm for mismatching variants is unreachable because the discriminants were compared equal before",
     [r"call:eq=True"]),
    # ---------------------------------------------------------------- feel-evaluator: built-ins
    (r"bifs::core::index_of$", r"assert\|Overflow:Add", "i is an enumerate() index over the list (< isize::MAX), i + 1 cannot overflow", []),
    (r"bifs::core::insert_before$", r"assert\|Overflow:Sub",
     "i = position.to_usize() of a number that is_positive(): to_usize parses the plain text as usize, so i is an integer >= 1 and i - 1 >= 0",
     [r"call:is_positive=True"]),
    (r"bifs::core::remove$", r"assert\|Overflow:Sub",
     "index = position.to_usize() of a number that is_positive(): an integer >= 1, so index - 1 >= 0", [r"call:is_positive=True"]),
    (r"bifs::core::sublist[23]$", r"assert\|Overflow:Sub",
     "position = to_usize() of a number that is_positive(): an integer >= 1, so position - 1 >= 0", [r"call:is_positive=True"]),
    (r"bifs::core::sublist2$", r"call\|.*index",
     "negative position: index = |position| and the enclosing `if index <= items.len()` makes items.len() - index a valid start of the slice", [r"call:is_negative=True", r"cmp:<=:.*:len"]),
    (r"bifs::core::sublist3$", r"call\|.*index",
     "the enclosing `if first < items.len() && last <= items.len()` with last = first + length (checked addition) makes first..last a valid range",
     [r"cmp:<:.*:len", r"cmp:<=:.*:len"]),
    (r"bifs::core::median$", r"(assert\|Overflow:Sub|call\|<>::index)",
     "list has the same length n as values (every value was pushed, otherwise the function returned), n > 0 is checked first; index = n / 2 < n, and in the even branch n >= 2 so index - 1 >= 0",
     [r"len_gt:0"]),
    (r"bifs::core::mode$", r"assert\|Overflow:Add", "count is the multiplicity of a value in the list (<= list length), count + 1 cannot overflow", []),
    (r"bifs::core::mode$", r"call\|core::option::Option::<>::unwrap",
     "values is non-empty (checked first) and every value is pushed, so the frequency table has at least one entry", [r"len_gt:0"]),
    (r"bifs::core::sort::\{closure#0\}$", r"call\|<>::index",
     "the comparison closure is created only in the branch `parameters.len() == 2` of sort(), and the slice is not modified afterwards", []),
    (r"bifs::core::substring$", r"assert\|Overflow:(Add|Sub)",
     "input_string_len <= isize::MAX (a char count) and start < 0: the sum lies in [isize::MIN, isize::MAX]; `input_string_len - index` is evaluated only after `index >= 0` and index < len because start < 0",
     [r"cmp:<:field0:0"]),
    (r"bifs::core::substring_(after|before)$", r"(assert\|Overflow:Add|call\|.*index)",
     "index is the byte offset returned by str::find for match_string: index and index + match_string.len() are char boundaries inside input_string", []),
    # ---------------------------------------------------------------- feel-number
    (r"number::scientific_to_plain$", r"(call\|core::(option::Option|result::Result)::<>::unwrap|assert\|Overflow:Sub)",
     "the argument is the output of decQuadToString: in the branch guarded by contains(\"E+\") / contains(\"E-\") the text is <coefficient>E<sign><digits>, split() yields two parts, the exponent is a decimal integer, and to-scientific-string puts at most `exponent` digits after the point (General Decimal Arithmetic spec); the coefficient (with or without its sign stripped) is split at '.' only in the branch where it contains('.')",
     [r"call:contains=True"]),
    # ---------------------------------------------------------------- feel-parser: lexer
    (r"lexer::Lexer::<'lexer>::char_at$", r"assert\|Overflow:Add",
     "position <= input.len() (Lexer.position is a bounded counter, see family lexer-position) and offset is a small look-ahead (constants <= 8 at the call sites, or incremented one by one while char_at(offset) is Some)", []),
    (r"lexer::Lexer::<'lexer>::char_at$", r"call\|.*index", "guarded by `self.position + offset < self.input.len()` on the line above", [r"cmp:<:.*:len"]),
    (r"lexer::Lexer::<'lexer>::is_next_character$", r"assert\|Overflow:Add",
     "offset is incremented only after char_at(offset) returned Some, i.e. position + offset < input.len() <= isize::MAX", []),
    (r"lexer::Lexer::<'lexer>::consume_name$", r"(assert\|Overflow:(Add|Sub)|call\|.*index)",
     "consumed_positions has one entry per entry of parts (pushed together); the sites are reached with parts non-empty (parts.get(0) is Some / index > 0 after the filter / part_count in 1..=parts.len()), and the stored positions are earlier values of Lexer.position (<= input length)",
     []),
    (r"lexer::Lexer::<'lexer>::consume_unicode_literal$", r"assert\|Overflow:(Add|Mul)",
     "consume_hex_digit() returns a value < 16: the accumulated value is < 16 * 2^20 + ... < 2^25", []),
    (r"lexer::Lexer::<'lexer>::consume_unicode$", r"call\|core::option::Option::<>::unwrap",
     "s was just built by String::from_utf8 from a non-empty byte vector (1..4 bytes): it has at least one char", []),
    (r"lexer::Lexer::<'lexer>::consume_unicode$", r"assert\|Overflow:(Add|Mul|Sub)",
     "value in 0xD800..=0xDBFF and low_surrogate in 0xDC00..=0xDFFF by the enclosing match arms: the code point is < 0x110000",
     [r"cmp:<=:55296:var", r"cmp:<=:var:56319"]),
    (r"parser::Parser::<'parser>::parse$", r"(assert\|Overflow:Sub|call\|.*index)",
     "yy_state_stack starts as [0]; a reduction by rule r pops YY_R2[r] entries after at least that many were pushed for the rule's symbols and pushes one: the stack is never empty (bison's driver invariant)",
     []),
    # ---------------------------------------------------------------- recognizer
    (r"dmntk_recognizer::canvas::scan$", r"(assert\|Overflow:Sub|call\|.*index)",
     "content starts with one row and gets one more per pushed line while height counts the pushes: content[height - 1] is the row before the last, and height >= 1 after the increment", []),
    (r"dmntk_recognizer::canvas::Canvas::", r".*",
     "canvas invariant: `content` is a rectangle built once in scan() (every row padded to the longest line, cells are [char; LAYER_COUNT] arrays and the layer arguments are the LAYER_* constants); the cursor is only set by move_to() (clamped to the last row/column) and by the search functions to a cell they just read; points and rectangles are built from such positions (+1 for the exclusive right/bottom edges), so y < content.len() and x < content[y].len() at every access; the search_* loops test `> 0` / `< len - 1` before stepping and a rectangle spans at least two cells in each direction (each search moves at least one step). Side condition checked by the rule: `content` is never restructured outside scan()",
     []),
    (r"dmntk_recognizer::rect::Rect::(width|height)$", r"assert\|Overflow:Sub",
     "rectangles are built with left <= right and top <= bottom: from cursor positions left-to-right / top-to-bottom (+1 exclusive edges) in the canvas, and in the plane from the main crossing p and the horizontal crossing q, which is found to the right of / below p (q.x >= p.x + 1) and inside width()/height()", []),
    (r"dmntk_recognizer::rect::Rect::inc_top$", r"assert\|Overflow:Add", "top is a plane row index (< plane height) and offset is the constant 1 at the only call site", []),
    (r"dmntk_recognizer::plane::Plane::(add_cell|row_len)$", r"call\|.*index",
     "only called from Canvas::plane() with its `row` counter, which is incremented exactly when add_row() pushes a row (the plane starts with one row): row == content.len() - 1", []),
    (r"dmntk_recognizer::plane::Plane::cell$", r"call\|.*index", "the two early returns above check row < content.len() and col < content[row].len()", [r"cmp:<:var:len"]),
    (r"dmntk_recognizer::plane::Plane::finalize$", r"(assert\|Overflow:Sub|call\|alloc::vec::Vec::<>::remove)",
     "a Plane is created with one row (Default) and rows are only added before finalize(): content.len() >= 1", []),
    (r"dmntk_recognizer::plane::Plane::(remove_first_column|remove_last_row)$", r"(assert\|Overflow:Sub|call\|alloc::vec::Vec::<>::remove)",
     "guarded by the emptiness test on the line above", [r"len_gt:0"]),
    (r"dmntk_recognizer::plane::Plane::pivot$", r".*",
     "plane invariant (finalize): non-empty rectangle; pivot() runs for RuleAsColumn tables only, whose last row (rule numbers) was removed while the row generated for the double crossing remains, so content[0] exists; all rows have the same length, so remove(0) succeeds for every row while row 0 is non-empty; last_mut() follows a push",
     []),
    (r"dmntk_recognizer::plane::Plane::recognize_hit_policy_placement$", r"call\|core::option::Option::<>::unwrap",
     "plane invariant (finalize): at least one row and every row has width() >= 1 cells; called before any column is removed", [r"len_gt:0"]),
    (r"dmntk_recognizer::plane::Plane::recognize_(horizontal|vertical)_rule_numbers$", r"(call\|.*index|assert\|Overflow:(Add|Sub))",
     "plane invariant (finalize): non-empty rectangle, so row content.len() - 1 and column 0 exist; the scans test `row < content.len()` / `col < content[row].len()` before every access; rule numbers are compared with a counter bounded by the number of cells", []),
    (r"dmntk_recognizer::plane::Plane::is_(horizontal|vertical)_output_double_line$", r"call\|.*index",
     "private helpers: their two callers test `row < content.len()` resp. `col < content[row].len()` immediately before the call and pass column 0 resp. the last row of a non-empty rectangular plane", []),
    (r"dmntk_recognizer::plane::Plane::(horz_\w+_rect|equal_regions_in_columns|unique_regions_in_columns)$", r"assert\|Overflow:Add",
     "p, q and x are cell coordinates inside the plane (< number of rows/columns): + 1 cannot overflow", []),
    (r"dmntk_recognizer::recognizer::Recognizer::recognize_horizontal_table$", r"(assert\|Overflow:(Add|Sub)|call\|core::option::Option::<>::unwrap)",
     "r.bottom - 1 / r.top + k are used inside the arms of `match r.height()` for heights 1..3, so the rows exist (region_text is itself bounds-checked); last_mut() directly follows a push", []),
    (r"dmntk_recognizer::builder::build$", r"call\|.*index",
     "validate_size() returned Ok: it checks input_expressions.len() == input_clauses_count, input_values/output_values/output_components either empty or of clause count, every entries matrix has rule_count rows of the respective clause count (annotations included); the loops run to exactly these sizes", []),
    # ---------------------------------------------------------------- common / model-evaluator builders
    (r"dmntk_common::href::HRef as core::convert::TryFrom<&str>>::try_from$", r"call\|core::option::Option::<>::unwrap",
     "strip_prefix('#') is called only in the branch where starts_with('#') is true, so it returns Some", [r"call:starts_with=True"]),
    (r"builders::decision_table::parse_decision_table$", r"call\|<>::index",
     "i enumerates the input (resp. output) clauses and the rule was rejected above unless it has exactly as many input (resp. output) entries", [r"cmp:==:len:len"]),
    (r"dmntk_model_evaluator::builders::item_definition_type$", r"call\|core::option::Option::<>::unwrap",
     "the arm is selected by the tuple `condition`, whose components are type_ref().is_some() and feel_type.is_some(): unwrap is applied to feel_type only in arms with `true` in the second position and to type_ref() only in arms with `true` in the first (type_ref() is a plain accessor, so the second call returns the same Some)", [r"variant:Some"]),
    # ---------------------------------------------------------------- model-evaluator: decision tables (reached through the evaluator closure signature)
    (r"decision_table::EvaluatedDecisionTable::(get_result|evaluate_hit_policy_collect_(sum|min|max)::\{closure#0\})$", r"call\|<>::index#(1|0)$(?<!get_result\|call\|<>::index#0)",
     "output_entry_values has one value per output clause of the table: parse_decision_table rejects tables without output clauses and rules whose number of output entries differs from the number of clauses, so the vector is never empty",
     []),
    (r"decision_table::EvaluatedDecisionTable::get_result$", r"call\|<>::index#0",
     "i enumerates output_entry_values and the early return above established output_entry_values.len() == component_names.len()", [r"cmp:==:len:len"]),
]


def main():
    reports = []
    rdir = os.path.join(VERIF, ".cache", "reports")
    for f in sorted(os.listdir(rdir)):
        if re.match(r"C(05|12|19)-(quick|thorough)\.json$", f):
            reports.append(json.load(open(os.path.join(rdir, f))))
    path = os.path.join(VERIF, "tables", "audited_sites.json")
    cur = json.load(open(path)).get("sites", {}) if os.path.exists(path) else {}
    sites = dict(cur)
    unmatched = []
    n_new = 0
    for r in reports:
        for v in r["violations"] + r.get("known", []):
            if not re.match(r"R\d+\.1$", v["rule"]) or "|" not in v["key"]:
                continue
            key = v["key"]
            fn, kind, what = key.split("|", 2)
            m = re.search(r"guards in force: (\[.*?\])\)", v["msg"])
            guards_now = eval(m.group(1)) if m else []
            hit = None
            for fr, wr, reason, gr in DEFS:
                if re.search(fr, fn) and re.search(wr, kind + "|" + what):
                    hit = (reason, gr)
                    break
            if hit is None:
                unmatched.append(key)
                continue
            # all guards currently in force are recomputed from the fact base below (the message is truncated to six)
            sites[key] = {"reason": hit[0], "guard_patterns": hit[1], "where": v.get("where")}
            n_new += 1
    # resolve guard patterns against the full guard set of each site
    sys.path.insert(0, os.path.join(VERIF, "engine"))
    import extract
    import facts as factsmod
    import g1_panic
    F = factsmod.Facts(extract.ensure_facts())
    analyzers = {}
    out = {}
    for key, e in sites.items():
        fn = key.split("|", 1)[0]
        if fn not in F.bodies:
            continue
        if fn not in analyzers:
            analyzers[fn] = (g1_panic.Analyzer(F, fn), {s.key(): s for s in g1_panic.collect_sites(F, fn)})
        A, ss = analyzers[fn]
        s = ss.get(key)
        if s is None:
            print("WARNING: audited site %s no longer exists (dropped)" % key)
            continue
        if "guard_patterns" in e:
            sigs = sorted({g1_panic.guard_sig(f) for f in A.facts_at(s.block, stale_ok=True)})
            need = []
            for gp in e["guard_patterns"]:
                ms = [g for g in sigs if re.search(gp, g)]
                if not ms:
                    print("WARNING: guard pattern %r matches nothing at %s (guards: %s)" % (gp, key, sigs))
                need += ms
            e = {"reason": e["reason"], "guards": sorted(set(need))}
        # operand signature: the audit was written for this computation of the index / operand (see g1_panic.expr_sig);
        # guards about the site's own operands are always part of the audit
        e = dict(e, ops=g1_panic.site_opsig(A, s), guards=sorted(set(e.get("guards", [])) | set(g1_panic.relevant_guards(A, s))),
                 rguards=g1_panic.relevant_guards(A, s, precise=True), file=F.bodies[fn]["file"])
        out[key] = e
    json.dump({"_doc": "Audited panic-capable sites: each entry was written after reading the code; `guards` are the dominating guards the argument relies on (the check fails if one disappears); `rguards` are the comparisons / length / variant tests about the site's own operands in canonical form (which expression is compared with which); `ops` is the canonical form of the operands the audit was written for (the check fails if the computation changes). Keys carry no line numbers.",
               "sites": dict(sorted(out.items()))}, open(path, "w"), indent=1)
    print("audited sites: %d (new/updated %d); unmatched violations: %d" % (len(out), n_new, len(unmatched)))
    for u in unmatched:
        print("  UNMATCHED", u)


if __name__ == "__main__":
    main()
