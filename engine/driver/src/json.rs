// Minimal streaming JSON writer (no dependencies).
pub struct W {
    s: String,
    // stack of "needs comma" flags
    st: Vec<bool>,
    after_key: bool,
}

impl W {
    pub fn new() -> Self {
        W { s: String::with_capacity(1 << 20), st: vec![false], after_key: false }
    }
    fn pre(&mut self) {
        if self.after_key {
            self.after_key = false;
            return;
        }
        if let Some(top) = self.st.last_mut() {
            if *top {
                self.s.push(',');
            }
            *top = true;
        }
    }
    pub fn obj_begin(&mut self) {
        self.pre();
        self.s.push('{');
        self.st.push(false);
    }
    pub fn obj_end(&mut self) {
        self.st.pop();
        self.s.push('}');
    }
    pub fn arr_begin(&mut self) {
        self.pre();
        self.s.push('[');
        self.st.push(false);
    }
    pub fn arr_end(&mut self) {
        self.st.pop();
        self.s.push(']');
    }
    pub fn key(&mut self, k: &str) {
        self.pre();
        self.raw_str(k);
        self.s.push(':');
        self.after_key = true;
    }
    fn raw_str(&mut self, v: &str) {
        self.s.push('"');
        for c in v.chars() {
            match c {
                '"' => self.s.push_str("\\\""),
                '\\' => self.s.push_str("\\\\"),
                '\n' => self.s.push_str("\\n"),
                '\r' => self.s.push_str("\\r"),
                '\t' => self.s.push_str("\\t"),
                c if (c as u32) < 0x20 => self.s.push_str(&format!("\\u{:04x}", c as u32)),
                c => self.s.push(c),
            }
        }
        self.s.push('"');
    }
    pub fn str(&mut self, v: &str) {
        self.pre();
        self.raw_str(v);
    }
    pub fn int(&mut self, v: i128) {
        self.pre();
        self.s.push_str(&v.to_string());
    }
    pub fn uint(&mut self, v: usize) {
        self.pre();
        self.s.push_str(&v.to_string());
    }
    pub fn bool(&mut self, v: bool) {
        self.pre();
        self.s.push_str(if v { "true" } else { "false" });
    }
    pub fn null(&mut self) {
        self.pre();
        self.s.push_str("null");
    }
    pub fn kstr(&mut self, k: &str, v: &str) {
        self.key(k);
        self.str(v);
    }
    pub fn kint(&mut self, k: &str, v: i128) {
        self.key(k);
        self.int(v);
    }
    pub fn kbool(&mut self, k: &str, v: bool) {
        self.key(k);
        self.bool(v);
    }
    pub fn finish(self) -> String {
        self.s
    }
}
