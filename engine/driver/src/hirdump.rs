use crate::json::W;
use crate::Ctx;
use rustc_hir as hir;
use rustc_hir::def::{DefKind, Res};
use rustc_middle::ty::{self, Instance, TypeVisitableExt, TypeckResults, TypingEnv};

struct H<'a, 'tcx> {
    cx: &'a mut Ctx<'tcx>,
    tr: &'tcx TypeckResults<'tcx>,
    tenv: TypingEnv<'tcx>,
}

pub fn dump_hir<'tcx>(cx: &mut Ctx<'tcx>, out: &mut W) {
    let tcx = cx.tcx;
    out.arr_begin();
    for ldid in tcx.hir_body_owners() {
        let did = ldid.to_def_id();
        let dk = tcx.def_kind(did);
        let kind = match dk {
            DefKind::Fn => "fn",
            DefKind::AssocFn => "method",
            DefKind::Const { .. } => "const",
            DefKind::AssocConst { .. } => "assoc_const",
            DefKind::Static { .. } => "static",
            _ => continue,
        };
        let Some(body) = tcx.hir_maybe_body_owned_by(ldid) else { continue };
        let tr = tcx.typeck(ldid);
        let tenv = TypingEnv::post_analysis(tcx, did);
        out.obj_begin();
        out.kstr("name", &cx.path(did));
        out.kstr("kind", kind);
        out.kstr("vis", &crate::mirdump::vis_str(cx, did));
        let (f, l0, l1) = cx.loc(tcx.def_span(did).with_hi(body.value.span.hi()));
        out.kstr("file", &f);
        out.kint("line", l0 as i128);
        out.kint("end_line", l1 as i128);
        let mut h = H { cx, tr, tenv };
        out.key("params");
        out.arr_begin();
        for p in body.params {
            h.pat(out, p.pat);
        }
        out.arr_end();
        out.key("body");
        h.expr(out, body.value);
        out.obj_end();
    }
    out.arr_end();
}

impl<'a, 'tcx> H<'a, 'tcx> {
    fn res(&mut self, out: &mut W, r: Res) {
        match r {
            Res::Local(id) => {
                out.kstr("res", "local");
                out.kstr("name", &self.cx.tcx.hir_name(id).to_string());
            }
            Res::Def(k, d) => {
                out.kstr("res", "def");
                out.kstr("dk", &format!("{:?}", k));
                out.kstr("path", &self.cx.path(d));
            }
            Res::SelfCtor(d) | Res::SelfTyAlias { alias_to: d, .. } => {
                out.kstr("res", "self");
                out.kstr("path", &self.cx.path(d));
            }
            o => {
                out.kstr("res", "other");
                out.kstr("path", &format!("{:?}", o));
            }
        }
    }

    fn resolve_call(&mut self, out: &mut W, d: hir::def_id::DefId, id: hir::HirId) {
        let tcx = self.cx.tcx;
        let orig = self.cx.path(d);
        let mut resolved = orig.clone();
        if matches!(tcx.def_kind(d), DefKind::Fn | DefKind::AssocFn) {
            let args = self.tr.node_args(id);
            if !args.has_non_region_infer() && args.len() >= tcx.generics_of(d).count() {
                if let Ok(Some(inst)) = Instance::try_resolve(tcx, self.tenv, d, args) {
                    resolved = self.cx.path(inst.def_id());
                }
            }
            if tcx.trait_of_assoc(d).is_some() {
                if let Some(t0) = args.types().next() {
                    let ti = self.cx.ty(t0);
                    out.kint("self_ty", ti as i128);
                }
            }
        }
        out.kstr("callee", &resolved);
        if orig != resolved {
            out.kstr("callee_decl", &orig);
        }
    }

    fn qpath_text(&self, q: &hir::QPath<'_>) -> String {
        match q {
            hir::QPath::Resolved(_, p) => p.segments.iter().map(|s| s.ident.to_string()).collect::<Vec<_>>().join("::"),
            hir::QPath::TypeRelative(_, s) => format!("<..>::{}", s.ident),
        }
    }

    fn common(&mut self, out: &mut W, e: &hir::Expr<'tcx>) {
        let (_, l, _) = self.cx.loc(e.span);
        out.kint("l", l as i128);
        if let Some(t) = self.tr.expr_ty_opt(e) {
            let ti = self.cx.ty(t);
            out.kint("t", ti as i128);
        }
        if let Some(m) = self.cx.macro_name(e.span) {
            out.kstr("m", &m);
        }
        // adjusted type when auto-deref/ref/unsize adjustments exist (needed to see closure->dyn coercions)
        let adj = self.tr.expr_adjustments(e);
        if !adj.is_empty() {
            if let Some(last) = adj.last() {
                let ti = self.cx.ty(last.target);
                out.kint("adj_t", ti as i128);
            }
        }
    }

    fn expr(&mut self, out: &mut W, e: &hir::Expr<'tcx>) {
        use hir::ExprKind as K;
        // transparent wrappers
        match &e.kind {
            K::DropTemps(i) | K::Use(i, _) | K::Type(i, _) => {
                return self.expr(out, i);
            }
            _ => {}
        }
        out.obj_begin();
        match &e.kind {
            K::Array(es) => {
                out.kstr("k", "Array");
                self.common(out, e);
                out.key("es");
                self.exprs(out, es);
            }
            K::Tup(es) => {
                out.kstr("k", "Tup");
                self.common(out, e);
                out.key("es");
                self.exprs(out, es);
            }
            K::Call(f, args) => {
                out.kstr("k", "Call");
                self.common(out, e);
                let mut done = false;
                if let K::Path(q) = &f.kind {
                    let r = self.tr.qpath_res(q, f.hir_id);
                    if let Res::Def(dk, d) = r {
                        out.kstr("dk", &format!("{:?}", dk));
                        self.resolve_call(out, d, f.hir_id);
                        done = true;
                    } else if let Res::SelfCtor(d) = r {
                        out.kstr("dk", "SelfCtor");
                        out.kstr("callee", &self.cx.path(d));
                        done = true;
                    }
                }
                if !done {
                    out.key("f");
                    self.expr(out, f);
                }
                out.key("args");
                self.exprs(out, args);
            }
            K::MethodCall(seg, recv, args, _) => {
                out.kstr("k", "MethodCall");
                self.common(out, e);
                out.kstr("method", &seg.ident.to_string());
                if let Some(d) = self.tr.type_dependent_def_id(e.hir_id) {
                    self.resolve_call(out, d, e.hir_id);
                }
                out.key("recv");
                self.expr(out, recv);
                out.key("args");
                self.exprs(out, args);
            }
            K::Binary(op, a, b) => {
                out.kstr("k", "Binary");
                self.common(out, e);
                out.kstr("op", op.node.as_str());
                if let Some(d) = self.tr.type_dependent_def_id(e.hir_id) {
                    self.resolve_call(out, d, e.hir_id);
                }
                out.key("a");
                self.expr(out, a);
                out.key("b");
                self.expr(out, b);
            }
            K::Unary(op, a) => {
                out.kstr("k", "Unary");
                self.common(out, e);
                out.kstr("op", op.as_str());
                if let Some(d) = self.tr.type_dependent_def_id(e.hir_id) {
                    self.resolve_call(out, d, e.hir_id);
                }
                out.key("a");
                self.expr(out, a);
            }
            K::Lit(l) => {
                out.kstr("k", "Lit");
                self.common(out, e);
                self.lit(out, &l.node);
            }
            K::Cast(i, _) => {
                out.kstr("k", "Cast");
                self.common(out, e);
                out.key("e");
                self.expr(out, i);
            }
            K::Let(l) => {
                out.kstr("k", "Let");
                self.common(out, e);
                out.key("p");
                self.pat(out, l.pat);
                out.key("e");
                self.expr(out, l.init);
            }
            K::If(c, t, el) => {
                out.kstr("k", "If");
                self.common(out, e);
                out.key("c");
                self.expr(out, c);
                out.key("then");
                self.expr(out, t);
                if let Some(el) = el {
                    out.key("else");
                    self.expr(out, el);
                }
            }
            K::Loop(b, _, src, _) => {
                out.kstr("k", "Loop");
                self.common(out, e);
                out.kstr("src", &format!("{:?}", src));
                // identity of the loop: `break` / `continue` name their target loop by it (labelled or innermost)
                out.kstr("id", &format!("{:?}", e.hir_id.local_id));
                out.key("b");
                self.block(out, b);
            }
            K::Match(s, arms, src) => {
                out.kstr("k", "Match");
                self.common(out, e);
                out.kstr("src", &format!("{:?}", src).split('(').next().unwrap_or("").to_string());
                out.key("e");
                self.expr(out, s);
                out.key("arms");
                out.arr_begin();
                for a in arms.iter() {
                    out.obj_begin();
                    let (_, l, _) = self.cx.loc(a.span);
                    out.kint("l", l as i128);
                    out.key("p");
                    self.pat(out, a.pat);
                    if let Some(g) = a.guard {
                        out.key("g");
                        self.expr(out, g);
                    }
                    out.key("b");
                    self.expr(out, a.body);
                    out.obj_end();
                }
                out.arr_end();
            }
            K::Closure(c) => {
                out.kstr("k", "Closure");
                self.common(out, e);
                out.kstr("name", &self.cx.path(c.def_id.to_def_id()));
                out.kbool("move", matches!(c.capture_clause, hir::CaptureBy::Value { .. }));
                let body = self.cx.tcx.hir_body(c.body);
                out.key("params");
                out.arr_begin();
                for p in body.params {
                    self.pat(out, p.pat);
                }
                out.arr_end();
                out.key("body");
                self.expr(out, body.value);
            }
            K::Block(b, _) => {
                out.kstr("k", "Block");
                self.common(out, e);
                if matches!(b.rules, hir::BlockCheckMode::UnsafeBlock(hir::UnsafeSource::UserProvided)) {
                    out.kbool("unsafe", true);
                }
                out.key("b");
                self.block(out, b);
            }
            K::Assign(a, b, _) => {
                out.kstr("k", "Assign");
                self.common(out, e);
                out.key("a");
                self.expr(out, a);
                out.key("b");
                self.expr(out, b);
            }
            K::AssignOp(op, a, b) => {
                out.kstr("k", "AssignOp");
                self.common(out, e);
                out.kstr("op", op.node.as_str());
                if let Some(d) = self.tr.type_dependent_def_id(e.hir_id) {
                    self.resolve_call(out, d, e.hir_id);
                }
                out.key("a");
                self.expr(out, a);
                out.key("b");
                self.expr(out, b);
            }
            K::Field(i, id) => {
                out.kstr("k", "Field");
                self.common(out, e);
                out.kstr("name", &id.to_string());
                out.key("e");
                self.expr(out, i);
            }
            K::Index(a, b, _) => {
                out.kstr("k", "Index");
                self.common(out, e);
                if let Some(d) = self.tr.type_dependent_def_id(e.hir_id) {
                    self.resolve_call(out, d, e.hir_id);
                }
                out.key("a");
                self.expr(out, a);
                out.key("b");
                self.expr(out, b);
            }
            K::Path(q) => {
                out.kstr("k", "Path");
                self.common(out, e);
                let r = self.tr.qpath_res(q, e.hir_id);
                self.res(out, r);
                out.kstr("text", &self.qpath_text(q));
            }
            K::AddrOf(_, m, i) => {
                out.kstr("k", "AddrOf");
                self.common(out, e);
                out.kbool("mut", m.is_mut());
                out.key("e");
                self.expr(out, i);
            }
            K::Break(dest, v) => {
                out.kstr("k", "Break");
                self.common(out, e);
                if let Ok(target) = dest.target_id {
                    out.kstr("target", &format!("{:?}", target.local_id));
                }
                if let Some(v) = v {
                    out.key("e");
                    self.expr(out, v);
                }
            }
            K::Continue(dest) => {
                out.kstr("k", "Continue");
                self.common(out, e);
                if let Ok(target) = dest.target_id {
                    out.kstr("target", &format!("{:?}", target.local_id));
                }
            }
            K::Ret(v) => {
                out.kstr("k", "Ret");
                self.common(out, e);
                if let Some(v) = v {
                    out.key("e");
                    self.expr(out, v);
                }
            }
            K::Struct(q, fields, tail) => {
                out.kstr("k", "Struct");
                self.common(out, e);
                let r = self.tr.qpath_res(q, e.hir_id);
                self.res(out, r);
                out.key("fields");
                out.arr_begin();
                for f in fields.iter() {
                    out.obj_begin();
                    out.kstr("name", &f.ident.to_string());
                    out.key("e");
                    self.expr(out, f.expr);
                    out.obj_end();
                }
                out.arr_end();
                if let hir::StructTailExpr::Base(b) = tail {
                    out.key("base");
                    self.expr(out, b);
                }
            }
            K::Repeat(v, _) => {
                out.kstr("k", "Repeat");
                self.common(out, e);
                out.key("e");
                self.expr(out, v);
            }
            K::ConstBlock(_) => {
                out.kstr("k", "ConstBlock");
                self.common(out, e);
            }
            o => {
                out.kstr("k", "Other");
                self.common(out, e);
                out.kstr("what", &format!("{:?}", o).chars().take(40).collect::<String>());
            }
        }
        out.obj_end();
    }

    fn exprs(&mut self, out: &mut W, es: &[hir::Expr<'tcx>]) {
        out.arr_begin();
        for e in es.iter() {
            self.expr(out, e);
        }
        out.arr_end();
    }

    fn lit(&mut self, out: &mut W, l: &rustc_ast::LitKind) {
        use rustc_ast::LitKind as L;
        match l {
            L::Str(s, _) => {
                out.kstr("lit", "str");
                out.kstr("v", s.as_str());
            }
            L::Int(n, _) => {
                out.kstr("lit", "int");
                let v = n.get();
                out.key("v");
                if v <= i128::MAX as u128 {
                    out.int(v as i128);
                } else {
                    out.str(&v.to_string());
                }
            }
            L::Bool(b) => {
                out.kstr("lit", "bool");
                out.kbool("v", *b);
            }
            L::Char(c) => {
                out.kstr("lit", "char");
                out.kstr("v", &c.to_string());
            }
            L::Float(s, _) => {
                out.kstr("lit", "float");
                out.kstr("v", s.as_str());
            }
            L::Byte(b) => {
                out.kstr("lit", "byte");
                out.kint("v", *b as i128);
            }
            o => {
                out.kstr("lit", "other");
                out.kstr("v", &format!("{:?}", o).chars().take(1200).collect::<String>());
            }
        }
    }

    fn block(&mut self, out: &mut W, b: &hir::Block<'tcx>) {
        out.obj_begin();
        out.key("stmts");
        out.arr_begin();
        for s in b.stmts.iter() {
            match &s.kind {
                hir::StmtKind::Let(l) => {
                    out.obj_begin();
                    out.kstr("k", "LetStmt");
                    let (_, ln, _) = self.cx.loc(s.span);
                    out.kint("l", ln as i128);
                    out.key("p");
                    self.pat(out, l.pat);
                    if let Some(i) = l.init {
                        out.key("e");
                        self.expr(out, i);
                    }
                    if let Some(el) = l.els {
                        out.key("else");
                        self.block(out, el);
                    }
                    out.obj_end();
                }
                hir::StmtKind::Expr(e) | hir::StmtKind::Semi(e) => {
                    self.expr(out, e);
                }
                hir::StmtKind::Item(_) => {}
            }
        }
        out.arr_end();
        if let Some(e) = b.expr {
            out.key("e");
            self.expr(out, e);
        }
        out.obj_end();
    }

    fn pat_expr(&mut self, out: &mut W, pe: &hir::PatExpr<'tcx>) {
        match &pe.kind {
            hir::PatExprKind::Lit { lit, negated } => {
                out.kstr("k", "Lit");
                out.kbool("neg", *negated);
                self.lit(out, &lit.node);
            }
            hir::PatExprKind::Path(q) => {
                out.kstr("k", "Path");
                let r = self.tr.qpath_res(q, pe.hir_id);
                self.res(out, r);
            }
            #[allow(unreachable_patterns)]
            _ => {
                out.kstr("k", "Other");
            }
        }
    }

    fn pat(&mut self, out: &mut W, p: &hir::Pat<'tcx>) {
        use hir::PatKind as P;
        out.obj_begin();
        match &p.kind {
            P::Wild | P::Missing => out.kstr("k", "Wild"),
            P::Binding(_, _, id, sub) => {
                out.kstr("k", "Bind");
                out.kstr("name", &id.to_string());
                if let Some(t) = self.tr.node_type_opt(p.hir_id) {
                    let ti = self.cx.ty(t);
                    out.kint("t", ti as i128);
                }
                if let Some(s) = sub {
                    out.key("sub");
                    self.pat(out, s);
                }
            }
            P::Struct(q, fields, _) => {
                out.kstr("k", "Struct");
                let r = self.tr.qpath_res(q, p.hir_id);
                self.res(out, r);
                out.key("fields");
                out.arr_begin();
                for f in fields.iter() {
                    out.obj_begin();
                    out.kstr("name", &f.ident.to_string());
                    out.key("p");
                    self.pat(out, f.pat);
                    out.obj_end();
                }
                out.arr_end();
            }
            P::TupleStruct(q, ps, _) => {
                out.kstr("k", "TupleStruct");
                let r = self.tr.qpath_res(q, p.hir_id);
                self.res(out, r);
                out.key("ps");
                out.arr_begin();
                for s in ps.iter() {
                    self.pat(out, s);
                }
                out.arr_end();
            }
            P::Or(ps) => {
                out.kstr("k", "Or");
                out.key("ps");
                out.arr_begin();
                for s in ps.iter() {
                    self.pat(out, s);
                }
                out.arr_end();
            }
            P::Tuple(ps, _) => {
                out.kstr("k", "Tuple");
                out.key("ps");
                out.arr_begin();
                for s in ps.iter() {
                    self.pat(out, s);
                }
                out.arr_end();
            }
            P::Box(s) | P::Deref(s) | P::Ref(s, ..) => {
                out.kstr("k", "Ref");
                out.key("p");
                self.pat(out, s);
            }
            P::Expr(pe) => {
                self.pat_expr(out, pe);
            }
            P::Range(a, b, end) => {
                out.kstr("k", "Range");
                out.kstr("end", &format!("{:?}", end));
                if let Some(a) = a {
                    out.key("lo");
                    out.obj_begin();
                    self.pat_expr(out, a);
                    out.obj_end();
                }
                if let Some(b) = b {
                    out.key("hi");
                    out.obj_begin();
                    self.pat_expr(out, b);
                    out.obj_end();
                }
            }
            P::Slice(a, m, b) => {
                out.kstr("k", "Slice");
                out.key("ps");
                out.arr_begin();
                for s in a.iter() {
                    self.pat(out, s);
                }
                out.arr_end();
                out.kbool("rest", m.is_some());
                // `[first, ..]` ignores the remaining elements, `[first, rest @ ..]` binds them
                out.kbool("rest_bound", matches!(m, Some(mp) if matches!(mp.kind, P::Binding(..))));
                out.key("after");
                out.arr_begin();
                for s in b.iter() {
                    self.pat(out, s);
                }
                out.arr_end();
            }
            P::Guard(s, _) => {
                out.kstr("k", "Guard");
                out.key("p");
                self.pat(out, s);
            }
            _ => out.kstr("k", "Other"),
        }
        out.obj_end();
    }
}

#[allow(dead_code)]
fn _unused(_: ty::Ty<'_>) {}
