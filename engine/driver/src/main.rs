// dmntk-verif-driver: a rustc_private fact extractor.
//
// Injected with RUSTC_WORKSPACE_WRAPPER under `cargo +nightly check`. For every workspace
// crate it compiles, it writes one JSON fact file into $DMNTK_VERIF_FACTS_DIR:
//   MIR of every body (structured), type-checked HIR trees of every body and const,
//   ADTs, statics, foreign fns, impls, unsafe blocks, deep interior-mutability walks.
// It never executes the analysed code. Compilation continues normally afterwards so that
// dependent crates get their metadata.
#![feature(rustc_private)]
#![allow(clippy::all)]

extern crate rustc_abi;
extern crate rustc_ast;
extern crate rustc_driver;
extern crate rustc_hir;
extern crate rustc_infer;
extern crate rustc_trait_selection;
extern crate rustc_interface;
extern crate rustc_middle;
extern crate rustc_session;
extern crate rustc_span;

#[macro_export]
macro_rules! np {
    ($e:expr) => {
        rustc_middle::ty::print::with_crate_prefix!(rustc_middle::ty::print::with_no_visible_paths!(
            rustc_middle::ty::print::with_no_trimmed_paths!($e)
        ))
    };
}

mod hirdump;
mod items;
mod json;
mod mirdump;

use rustc_driver::{Callbacks, Compilation};
use rustc_interface::interface::Compiler;
use rustc_middle::ty::TyCtxt;
use std::collections::HashMap;

pub struct Ctx<'tcx> {
    pub tcx: TyCtxt<'tcx>,
    pub krate: String,
    pub types: Vec<String>,
    pub type_ix: HashMap<String, usize>,
}

impl<'tcx> Ctx<'tcx> {
    pub fn ty(&mut self, t: rustc_middle::ty::Ty<'tcx>) -> usize {
        let s = self.fix(crate::np!(format!("{}", t)));
        if let Some(i) = self.type_ix.get(&s) {
            return *i;
        }
        let i = self.types.len();
        self.types.push(s.clone());
        self.type_ix.insert(s, i);
        i
    }
    pub fn path(&self, d: rustc_hir::def_id::DefId) -> String {
        self.fix(crate::np!(self.tcx.def_path_str(d)))
    }
    /// `crate::` -> `<crate name>::` so that names are globally unique and stitchable
    pub fn fix(&self, s: String) -> String {
        if !s.contains("crate::") {
            return s;
        }
        let mut out = String::with_capacity(s.len() + 16);
        let b = s.as_bytes();
        let mut i = 0;
        while i < b.len() {
            if s[i..].starts_with("crate::") && (i == 0 || !(b[i - 1].is_ascii_alphanumeric() || b[i - 1] == b'_')) {
                out.push_str(&self.krate);
                out.push_str("::");
                i += 7;
            } else {
                let ch = s[i..].chars().next().unwrap();
                out.push(ch);
                i += ch.len_utf8();
            }
        }
        out
    }
    pub fn loc(&self, sp: rustc_span::Span) -> (String, usize, usize) {
        let sm = self.tcx.sess.source_map();
        // use the call-site of macro expansions so that lines are source lines of the repo
        let sp = sp.source_callsite();
        let lo = sm.lookup_char_pos(sp.lo());
        let hi = sm.lookup_char_pos(sp.hi());
        let f = match &lo.file.name {
            rustc_span::FileName::Real(r) => match r.local_path() {
                Some(p) => p.to_string_lossy().to_string(),
                None => format!("{:?}", lo.file.name),
            },
            o => format!("{:?}", o),
        };
        (f, lo.line, hi.line)
    }
    pub fn macro_name(&self, sp: rustc_span::Span) -> Option<String> {
        if !sp.from_expansion() {
            return None;
        }
        // outermost user-written macro in the backtrace
        let mut name = None;
        for e in sp.macro_backtrace() {
            name = Some(e.kind.descr().to_string());
        }
        name
    }
}

struct Cb;

impl Callbacks for Cb {
    fn after_analysis<'tcx>(&mut self, _c: &Compiler, tcx: TyCtxt<'tcx>) -> Compilation {
        let dir = match std::env::var("DMNTK_VERIF_FACTS_DIR") {
            Ok(d) => d,
            Err(_) => return Compilation::Continue,
        };
        let krate = tcx.crate_name(rustc_hir::def_id::LOCAL_CRATE).to_string();
        if krate.starts_with("build_script") {
            return Compilation::Continue;
        }
        let only = std::env::var("DMNTK_VERIF_ONLY").unwrap_or_default();
        if !only.is_empty() && !only.split(',').any(|c| c == krate) {
            return Compilation::Continue;
        }
        let ctypes: Vec<String> = tcx.crate_types().iter().map(|t| format!("{:?}", t)).collect();
        let mut cx = Ctx { tcx, krate: krate.clone(), types: Vec::new(), type_ix: HashMap::new() };
        let mut out = json::W::new();
        out.obj_begin();
        out.key("crate");
        out.str(&krate);
        out.key("crate_types");
        out.arr_begin();
        for t in &ctypes {
            out.str(t);
        }
        out.arr_end();
        out.key("bodies");
        mirdump::dump_bodies(&mut cx, &mut out);
        out.key("hir");
        hirdump::dump_hir(&mut cx, &mut out);
        items::dump_items(&mut cx, &mut out);
        out.key("types");
        out.arr_begin();
        let tys = std::mem::take(&mut cx.types);
        for t in &tys {
            out.str(t);
        }
        out.arr_end();
        out.obj_end();
        let kind = if ctypes.iter().any(|t| t.contains("Executable")) { "bin" } else { "lib" };
        let fname = format!("{}/{}.{}.json", dir, krate, kind);
        let tmp = format!("{}.tmp{}", fname, std::process::id());
        std::fs::write(&tmp, out.finish()).expect("write facts");
        std::fs::rename(&tmp, &fname).expect("rename facts");
        Compilation::Continue
    }
}

fn main() {
    let mut args: Vec<String> = std::env::args().collect();
    // RUSTC_WORKSPACE_WRAPPER: argv[1] is the path of the real rustc
    if args.len() > 1 && (args[1].ends_with("rustc") || args[1].contains("/rustc")) {
        args.remove(1);
    }
    rustc_driver::run_compiler(&args, &mut Cb);
}
