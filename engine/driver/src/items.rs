use crate::json::W;
use crate::Ctx;
use rustc_hir::def::DefKind;
use rustc_middle::ty::{self, Ty, TypingEnv};
use rustc_infer::infer::TyCtxtInferExt;
use rustc_trait_selection::infer::InferCtxtExt;
use std::collections::HashSet;

/// does `t` implement the auto trait (Send / Sync)?  (closed, non-generic types only)
pub fn implements<'tcx>(cx: &Ctx<'tcx>, t: Ty<'tcx>, lang: rustc_hir::LangItem) -> Option<bool> {
    let tcx = cx.tcx;
    let did = tcx.lang_items().get(lang)?;
    let infcx = tcx.infer_ctxt().build(ty::TypingMode::non_body_analysis());
    let r = infcx.type_implements_trait(did, [t], ty::ParamEnv::empty());
    Some(r.must_apply_modulo_regions())
}

pub fn implements_diag<'tcx>(cx: &Ctx<'tcx>, t: Ty<'tcx>, name: &str) -> Option<bool> {
    let tcx = cx.tcx;
    let did = tcx.get_diagnostic_item(rustc_span::Symbol::intern(name))?;
    let infcx = tcx.infer_ctxt().build(ty::TypingMode::non_body_analysis());
    let r = infcx.type_implements_trait(did, [t], ty::ParamEnv::empty());
    Some(r.must_apply_modulo_regions())
}

/// Deep walk: which UnsafeCell-bearing ADTs / opaque things are reachable through a type,
/// following Box/Vec/Arc/raw pointers/references (unlike `Freeze`, which is shallow).
pub fn deep_walk<'tcx>(cx: &Ctx<'tcx>, t: Ty<'tcx>, seen: &mut HashSet<Ty<'tcx>>, found: &mut Vec<String>, depth: usize) {
    if depth > 64 || !seen.insert(t) {
        return;
    }
    let tcx = cx.tcx;
    match t.kind() {
        ty::Adt(adt, args) => {
            if adt.is_unsafe_cell() {
                found.push("cell:core::cell::UnsafeCell".to_string());
                return;
            }
            let p = cx.path(adt.did());
            // well-known interior-mutability carriers are reported by name (they all bottom out in UnsafeCell)
            // Arc's reference counters are interior-mutable bookkeeping, not payload state: follow `data` only
            let arc_inner = p == "alloc::sync::ArcInner";
            for v in adt.variants().iter() {
                for f in v.fields.iter() {
                    if arc_inner && f.name.as_str() != "data" {
                        continue;
                    }
                    let ft = f.ty(tcx, args);
                    let before = found.len();
                    deep_walk(cx, ft, seen, found, depth + 1);
                    if found.len() > before {
                        // annotate with the outer ADT once
                        let tag = format!("via:{}", p);
                        if !found.contains(&tag) {
                            found.push(tag);
                        }
                    }
                }
            }
            for a in args.types() {
                deep_walk(cx, a, seen, found, depth + 1);
            }
        }
        ty::Ref(_, inner, _) | ty::RawPtr(inner, _) | ty::Slice(inner) | ty::Array(inner, _) | ty::Pat(inner, _) => {
            deep_walk(cx, *inner, seen, found, depth + 1);
        }
        ty::Tuple(ts) => {
            for x in ts.iter() {
                deep_walk(cx, x, seen, found, depth + 1);
            }
        }
        ty::Closure(_, args) => {
            for x in args.as_closure().upvar_tys() {
                deep_walk(cx, x, seen, found, depth + 1);
            }
        }
        ty::Dynamic(..) => {
            let s = cx.fix(crate::np!(format!("dyn:{}", t)));
            if !found.contains(&s) {
                found.push(s);
            }
        }
        ty::Param(_) => {
            let s = format!("param:{}", t);
            if !found.contains(&s) {
                found.push(s);
            }
        }
        ty::Alias(..) | ty::Foreign(_) | ty::Coroutine(..) | ty::CoroutineClosure(..) => {
            found.push(cx.fix(crate::np!(format!("opaque:{}", t))));
        }
        _ => {}
    }
}

fn strs(out: &mut W, v: &[String]) {
    out.arr_begin();
    for s in v {
        out.str(s);
    }
    out.arr_end();
}

pub fn dump_items<'tcx>(cx: &mut Ctx<'tcx>, out: &mut W) {
    let tcx = cx.tcx;
    let mut adts = Vec::new();
    let mut statics = Vec::new();
    let mut foreign = Vec::new();
    let mut impls = Vec::new();
    let mut consts = Vec::new();
    let mut closures = Vec::new();
    let mut fns = Vec::new();
    for ldid in tcx.iter_local_def_id() {
        let did = ldid.to_def_id();
        match tcx.def_kind(did) {
            DefKind::Struct | DefKind::Enum | DefKind::Union => adts.push(did),
            DefKind::Static { .. } => {
                if tcx.is_foreign_item(did) {
                    foreign.push(did)
                } else {
                    statics.push(did)
                }
            }
            DefKind::Fn => {
                if tcx.is_foreign_item(did) {
                    foreign.push(did)
                } else {
                    fns.push(did)
                }
            }
            DefKind::AssocFn => fns.push(did),
            DefKind::Impl { .. } => impls.push(did),
            DefKind::Const { .. } | DefKind::AssocConst { .. } => consts.push(did),
            DefKind::Closure => closures.push(did),
            _ => {}
        }
    }

    out.key("adts");
    out.arr_begin();
    for did in adts {
        let adt = tcx.adt_def(did);
        let t = tcx.type_of(did).instantiate_identity().skip_norm_wip();
        out.obj_begin();
        out.kstr("name", &cx.path(did));
        out.kstr("kind", if adt.is_enum() { "enum" } else if adt.is_union() { "union" } else { "struct" });
        out.kbool("repr_c", adt.repr().c());
        let (f, l, _) = cx.loc(tcx.def_span(did));
        out.kstr("file", &f);
        out.kint("line", l as i128);
        let generics = tcx.generics_of(did);
        let is_generic = generics.own_requires_monomorphization();
        out.kbool("generic", is_generic);
        out.key("variants");
        out.arr_begin();
        for (vi, v) in adt.variants().iter_enumerated() {
            out.obj_begin();
            out.kstr("name", &v.name.to_string());
            if adt.is_enum() {
                let d = adt.discriminant_for_variant(tcx, vi);
                out.kstr("discr", &d.val.to_string());
            }
            out.key("fields");
            out.arr_begin();
            for fd in v.fields.iter() {
                out.obj_begin();
                out.kstr("name", &fd.name.to_string());
                let ft = tcx.type_of(fd.did).instantiate_identity().skip_norm_wip();
                let ti = cx.ty(ft);
                out.kint("ty", ti as i128);
                out.kbool("pub", tcx.visibility(fd.did).is_public());
                out.obj_end();
            }
            out.arr_end();
            out.obj_end();
        }
        out.arr_end();
        if !is_generic {
            let tenv = TypingEnv::fully_monomorphized();
            if let Ok(lay) = tcx.layout_of(tenv.as_query_input(t)) {
                out.kint("size", lay.size.bytes() as i128);
                out.kint("align", lay.align.abi.bytes() as i128);
                if adt.is_struct() {
                    out.key("offsets");
                    out.arr_begin();
                    for i in 0..lay.fields.count() {
                        out.uint(lay.fields.offset(i).bytes() as usize);
                    }
                    out.arr_end();
                }
            }
            let mut seen = HashSet::new();
            let mut found = Vec::new();
            deep_walk(cx, t, &mut seen, &mut found, 0);
            out.key("deep");
            strs(out, &found);
            out.kbool("freeze", t.is_freeze(tcx, tenv));
            if let Some(b) = implements_diag(cx, t, "Send") {
                out.kbool("send", b);
            }
            if let Some(b) = implements(cx, t, rustc_hir::LangItem::Sync) {
                out.kbool("sync", b);
            }
        }
        out.obj_end();
    }
    out.arr_end();

    out.key("aliases");
    out.arr_begin();
    for ldid in tcx.iter_local_def_id() {
        let did = ldid.to_def_id();
        if tcx.def_kind(did) == DefKind::TyAlias {
            let generics = tcx.generics_of(did);
            let t = tcx.type_of(did).instantiate_identity().skip_norm_wip();
            out.obj_begin();
            out.kstr("name", &cx.path(did));
            let ti = cx.ty(t);
            out.kint("ty", ti as i128);
            if !generics.own_requires_monomorphization() {
                if let Some(b) = implements_diag(cx, t, "Send") {
                    out.kbool("send", b);
                }
                if let Some(b) = implements(cx, t, rustc_hir::LangItem::Sync) {
                    out.kbool("sync", b);
                }
            }
            out.obj_end();
        }
    }
    out.arr_end();

    out.key("statics");
    out.arr_begin();
    for did in statics {
        let t = tcx.type_of(did).instantiate_identity().skip_norm_wip();
        out.obj_begin();
        out.kstr("name", &cx.path(did));
        let ti = cx.ty(t);
        out.kint("ty", ti as i128);
        out.kbool("mut", tcx.is_mutable_static(did));
        let tenv = TypingEnv::fully_monomorphized();
        out.kbool("freeze", t.is_freeze(tcx, tenv));
        let mut seen = HashSet::new();
        let mut found = Vec::new();
        deep_walk(cx, t, &mut seen, &mut found, 0);
        out.key("deep");
        strs(out, &found);
        let (f, l, _) = cx.loc(tcx.def_span(did));
        out.kstr("file", &f);
        out.kint("line", l as i128);
        if let Some(m) = cx.macro_name(tcx.def_span(did)) {
            out.kstr("m", &m);
        }
        out.obj_end();
    }
    out.arr_end();

    out.key("foreign");
    out.arr_begin();
    for did in foreign {
        out.obj_begin();
        out.kstr("name", &cx.path(did));
        out.kstr("sym", &tcx.item_name(did).to_string());
        if tcx.def_kind(did) == DefKind::Fn {
            let sig = tcx.fn_sig(did).instantiate_identity().skip_norm_wip().skip_binder();
            out.key("inputs");
            out.arr_begin();
            for t in sig.inputs() {
                let s = cx.fix(crate::np!(format!("{}", t)));
                out.str(&s);
            }
            out.arr_end();
            let s = cx.fix(crate::np!(format!("{}", sig.output())));
            out.kstr("output", &s);
            out.kbool("variadic", sig.c_variadic());
        } else {
            out.kstr("static", "true");
        }
        let (f, l, _) = cx.loc(tcx.def_span(did));
        out.kstr("file", &f);
        out.kint("line", l as i128);
        out.obj_end();
    }
    out.arr_end();

    out.key("impls");
    out.arr_begin();
    for did in impls {
        out.obj_begin();
        let st = tcx.type_of(did).instantiate_identity().skip_norm_wip();
        let s = cx.fix(crate::np!(format!("{}", st)));
        out.kstr("self_ty", &s);
        if tcx.impl_opt_trait_ref(did).is_some() {
            let h = tcx.impl_trait_header(did);
            let tr = h.trait_ref.instantiate_identity().skip_norm_wip();
            out.kstr("trait", &cx.path(tr.def_id));
            out.kbool("unsafe", h.safety.is_unsafe());
            out.kstr("polarity", &format!("{:?}", h.polarity));
        }
        let (f, l, _) = cx.loc(tcx.def_span(did));
        out.kstr("file", &f);
        out.kint("line", l as i128);
        if let Some(m) = cx.macro_name(tcx.def_span(did)) {
            out.kstr("m", &m);
        }
        out.obj_end();
    }
    out.arr_end();

    out.key("consts");
    out.arr_begin();
    for did in consts {
        out.obj_begin();
        out.kstr("name", &cx.path(did));
        let t = tcx.type_of(did).instantiate_identity().skip_norm_wip();
        let ti = cx.ty(t);
        out.kint("ty", ti as i128);
        out.obj_end();
    }
    out.arr_end();

    out.key("closures");
    out.arr_begin();
    for did in closures {
        let t = tcx.type_of(did).instantiate_identity().skip_norm_wip();
        out.obj_begin();
        out.kstr("name", &cx.path(did));
        let mut seen = HashSet::new();
        let mut found = Vec::new();
        deep_walk(cx, t, &mut seen, &mut found, 0);
        out.key("deep");
        strs(out, &found);
        out.obj_end();
    }
    out.arr_end();

    out.key("fns");
    out.arr_begin();
    for did in fns {
        out.obj_begin();
        out.kstr("name", &cx.path(did));
        out.kstr("vis", &crate::mirdump::vis_str(cx, did));
        let sig = tcx.fn_sig(did).instantiate_identity().skip_norm_wip().skip_binder();
        out.kbool("unsafe", sig.safety().is_unsafe());
        out.key("inputs");
        out.arr_begin();
        for t in sig.inputs() {
            let i = cx.ty(*t);
            out.uint(i);
        }
        out.arr_end();
        let o = cx.ty(sig.output());
        out.kint("output", o as i128);
        if let Some(tr) = tcx.trait_of_assoc(did) {
            out.kstr("trait_decl", &cx.path(tr));
        }
        if let Some(imp) = tcx.impl_of_assoc(did) {
            if tcx.impl_opt_trait_ref(imp).is_some() {
                let h = tcx.impl_trait_header(imp);
                let tr = h.trait_ref.instantiate_identity().skip_norm_wip();
                out.kstr("impl_of_trait", &cx.path(tr.def_id));
            }
        }
        let (f, l, _) = cx.loc(tcx.def_span(did));
        out.kstr("file", &f);
        out.kint("line", l as i128);
        out.obj_end();
    }
    out.arr_end();
}
