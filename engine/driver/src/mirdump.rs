use crate::json::W;
use crate::Ctx;
use rustc_hir::def::DefKind;
use rustc_middle::mir::*;
use rustc_middle::ty::{self, Instance, InstanceKind, TypingEnv};

pub fn vis_str<'tcx>(cx: &Ctx<'tcx>, d: rustc_hir::def_id::DefId) -> String {
    match cx.tcx.def_kind(d) {
        DefKind::Fn | DefKind::AssocFn => {
            let v = cx.tcx.visibility(d);
            if v.is_public() {
                "pub".to_string()
            } else {
                format!("{:?}", v)
            }
        }
        _ => "n/a".to_string(),
    }
}

pub fn dump_bodies<'tcx>(cx: &mut Ctx<'tcx>, out: &mut W) {
    let tcx = cx.tcx;
    out.arr_begin();
    for ldid in tcx.hir_body_owners() {
        let did = ldid.to_def_id();
        let dk = tcx.def_kind(did);
        let kind = match dk {
            DefKind::Fn => "fn",
            DefKind::AssocFn => "method",
            DefKind::Closure => "closure",
            _ => continue,
        };
        if !tcx.is_mir_available(did) {
            continue;
        }
        let body = tcx.optimized_mir(did);
        let tenv = TypingEnv::post_analysis(tcx, did);
        out.obj_begin();
        out.kstr("name", &cx.path(did));
        out.kstr("kind", kind);
        if dk == DefKind::Closure {
            let p = tcx.parent(did);
            out.kstr("parent", &cx.path(p));
        }
        out.kstr("vis", &vis_str(cx, did));
        let (f, l0, l1) = cx.loc(body.span);
        out.kstr("file", &f);
        out.kint("line", l0 as i128);
        out.kint("end_line", l1 as i128);
        out.kbool("from_expansion", body.span.from_expansion());
        out.kint("argc", body.arg_count as i128);
        out.key("locals");
        out.arr_begin();
        for d in body.local_decls.iter() {
            let t = cx.ty(d.ty);
            out.uint(t);
        }
        out.arr_end();
        out.key("names");
        out.obj_begin();
        for v in body.var_debug_info.iter() {
            if let VarDebugInfoContents::Place(p) = &v.value {
                if p.projection.is_empty() {
                    out.kstr(&format!("{}", p.local.as_usize()), &v.name.to_string());
                } else if p.local.as_usize() == 1 {
                    // closure upvar: _1.<field> (possibly deref'd)
                    let mut fld = None;
                    for e in p.projection.iter() {
                        if let ProjectionElem::Field(i, _) = e {
                            fld = Some(i.as_usize());
                            break;
                        }
                    }
                    if let Some(i) = fld {
                        out.kstr(&format!("up{}", i), &v.name.to_string());
                    }
                }
            }
        }
        out.obj_end();
        // closure upvar types
        if dk == DefKind::Closure {
            let cty = tcx.type_of(did).instantiate_identity().skip_norm_wip();
            if let ty::Closure(_, args) = cty.kind() {
                out.key("upvars");
                out.arr_begin();
                for t in args.as_closure().upvar_tys() {
                    let i = cx.ty(t);
                    out.uint(i);
                }
                out.arr_end();
            }
        }
        out.key("blocks");
        out.arr_begin();
        for (_bb, data) in body.basic_blocks.iter_enumerated() {
            out.obj_begin();
            if data.is_cleanup {
                out.kbool("cleanup", true);
            }
            out.key("s");
            out.arr_begin();
            for st in data.statements.iter() {
                match &st.kind {
                    StatementKind::Assign(b) => {
                        let (pl, rv) = &**b;
                        out.arr_begin();
                        out.str("A");
                        place(cx, out, pl);
                        rvalue(cx, out, rv, tenv);
                        let (_, l, _) = cx.loc(st.source_info.span);
                        out.uint(l);
                        out.arr_end();
                    }
                    StatementKind::SetDiscriminant { place: pl, variant_index } => {
                        out.arr_begin();
                        out.str("SD");
                        place(cx, out, pl);
                        out.uint(variant_index.as_usize());
                        out.arr_end();
                    }
                    _ => {}
                }
            }
            out.arr_end();
            out.key("t");
            terminator(cx, out, body, data.terminator(), tenv);
            out.obj_end();
        }
        out.arr_end();
        out.obj_end();
    }
    out.arr_end();
}

fn place<'tcx>(cx: &mut Ctx<'tcx>, out: &mut W, p: &Place<'tcx>) {
    out.arr_begin();
    out.uint(p.local.as_usize());
    for e in p.projection.iter() {
        match e {
            ProjectionElem::Deref => out.str("*"),
            ProjectionElem::Field(i, _) => {
                out.arr_begin();
                out.str(".");
                out.uint(i.as_usize());
                out.arr_end();
            }
            ProjectionElem::Index(l) => {
                out.arr_begin();
                out.str("i");
                out.uint(l.as_usize());
                out.arr_end();
            }
            ProjectionElem::ConstantIndex { offset, min_length, from_end } => {
                out.arr_begin();
                out.str("c");
                out.uint(offset as usize);
                out.uint(min_length as usize);
                out.bool(from_end);
                out.arr_end();
            }
            ProjectionElem::Subslice { from, to, from_end } => {
                out.arr_begin();
                out.str("s");
                out.uint(from as usize);
                out.uint(to as usize);
                out.bool(from_end);
                out.arr_end();
            }
            ProjectionElem::Downcast(name, vi) => {
                out.arr_begin();
                out.str("d");
                out.uint(vi.as_usize());
                out.str(&name.map(|s| s.to_string()).unwrap_or_default());
                out.arr_end();
            }
            _ => {
                out.arr_begin();
                out.str("o");
                out.arr_end();
            }
        }
    }
    let _ = cx;
    out.arr_end();
}

fn operand<'tcx>(cx: &mut Ctx<'tcx>, out: &mut W, o: &Operand<'tcx>, tenv: TypingEnv<'tcx>) {
    out.arr_begin();
    match o {
        Operand::Copy(p) => {
            out.str("C");
            place(cx, out, p);
        }
        Operand::Move(p) => {
            out.str("M");
            place(cx, out, p);
        }
        Operand::Constant(c) => {
            let t = c.const_.ty();
            if let ty::FnDef(d, args) = t.kind() {
                out.str("F");
                out.str(&cx.path(*d));
                let a = cx.fix(crate::np!(format!("{:?}", args)));
                out.str(&a);
            } else {
                out.str("K");
                let txt = cx.fix(crate::np!(format!("{}", c.const_)));
                out.str(&txt);
                let ti = cx.ty(t);
                out.uint(ti);
                if t.is_integral() || t.is_bool() || t.is_char() {
                    if let Some(si) = c.const_.try_eval_scalar_int(cx.tcx, tenv) {
                        let sz = si.size();
                        if t.is_signed() {
                            out.int(si.to_int(sz));
                        } else {
                            let v = si.to_uint(sz);
                            if v <= i128::MAX as u128 {
                                out.int(v as i128);
                            } else {
                                out.str(&v.to_string());
                            }
                        }
                    }
                }
            }
        }
        #[allow(unreachable_patterns)]
        _ => {
            out.str("O");
            out.str(&format!("{:?}", o));
        }
    }
    out.arr_end();
}

fn rvalue<'tcx>(cx: &mut Ctx<'tcx>, out: &mut W, rv: &Rvalue<'tcx>, tenv: TypingEnv<'tcx>) {
    out.arr_begin();
    match rv {
        Rvalue::Use(o, ..) => {
            out.str("Use");
            operand(cx, out, o, tenv);
        }
        Rvalue::Repeat(o, n) => {
            out.str("Repeat");
            operand(cx, out, o, tenv);
            out.str(&format!("{}", n));
        }
        Rvalue::Ref(_, bk, p) => {
            out.str("Ref");
            out.str(match bk {
                BorrowKind::Shared => "shared",
                BorrowKind::Fake(_) => "fake",
                BorrowKind::Mut { .. } => "mut",
            });
            place(cx, out, p);
        }
        Rvalue::RawPtr(k, p) => {
            out.str("RawPtr");
            out.str(&format!("{:?}", k));
            place(cx, out, p);
        }
        Rvalue::Cast(k, o, t) => {
            out.str("Cast");
            out.str(&format!("{:?}", k));
            operand(cx, out, o, tenv);
            let ti = cx.ty(*t);
            out.uint(ti);
        }
        Rvalue::BinaryOp(op, b) => {
            out.str("Bin");
            out.str(&format!("{:?}", op));
            operand(cx, out, &b.0, tenv);
            operand(cx, out, &b.1, tenv);
        }
        Rvalue::UnaryOp(op, o) => {
            out.str("Un");
            out.str(&format!("{:?}", op));
            operand(cx, out, o, tenv);
        }
        Rvalue::Discriminant(p) => {
            out.str("Disc");
            place(cx, out, p);
        }
        Rvalue::Aggregate(k, ops) => {
            out.str("Agg");
            match &**k {
                AggregateKind::Tuple => out.str("tuple"),
                AggregateKind::Array(_) => out.str("array"),
                AggregateKind::Adt(d, vi, _, _, _) => {
                    out.arr_begin();
                    out.str("adt");
                    out.str(&cx.path(*d));
                    out.uint(vi.as_usize());
                    let adt = cx.tcx.adt_def(*d);
                    out.str(&adt.variant(*vi).name.to_string());
                    out.arr_end();
                }
                AggregateKind::Closure(d, _) => {
                    out.arr_begin();
                    out.str("closure");
                    out.str(&cx.path(*d));
                    out.arr_end();
                }
                o => out.str(&format!("{:?}", o)),
            }
            out.arr_begin();
            for o in ops.iter() {
                operand(cx, out, o, tenv);
            }
            out.arr_end();
        }
        Rvalue::CopyForDeref(p) => {
            out.str("Use");
            out.arr_begin();
            out.str("C");
            place(cx, out, p);
            out.arr_end();
        }
        Rvalue::ThreadLocalRef(d) => {
            out.str("TLS");
            out.str(&cx.path(*d));
        }
        o => {
            out.str("Other");
            out.str(&format!("{:?}", o));
        }
    }
    out.arr_end();
}

fn bbopt(out: &mut W, b: Option<BasicBlock>) {
    match b {
        Some(b) => out.uint(b.as_usize()),
        None => out.null(),
    }
}

fn unwind_target(u: &UnwindAction) -> Option<BasicBlock> {
    match u {
        UnwindAction::Cleanup(b) => Some(*b),
        _ => None,
    }
}

fn terminator<'tcx>(cx: &mut Ctx<'tcx>, out: &mut W, body: &Body<'tcx>, t: &Terminator<'tcx>, tenv: TypingEnv<'tcx>) {
    let tcx = cx.tcx;
    let (_, line, _) = cx.loc(t.source_info.span);
    out.arr_begin();
    match &t.kind {
        TerminatorKind::Goto { target } => {
            out.str("goto");
            out.uint(target.as_usize());
        }
        TerminatorKind::SwitchInt { discr, targets } => {
            out.str("switch");
            operand(cx, out, discr, tenv);
            out.arr_begin();
            for (v, b) in targets.iter() {
                out.arr_begin();
                if v <= i128::MAX as u128 {
                    out.int(v as i128);
                } else {
                    out.str(&v.to_string());
                }
                out.uint(b.as_usize());
                out.arr_end();
            }
            out.arr_end();
            out.uint(targets.otherwise().as_usize());
        }
        TerminatorKind::Return => out.str("ret"),
        TerminatorKind::Unreachable => out.str("unreachable"),
        TerminatorKind::UnwindResume => out.str("resume"),
        TerminatorKind::Drop { place: p, target, unwind, .. } => {
            out.str("drop");
            place(cx, out, p);
            out.uint(target.as_usize());
            bbopt(out, unwind_target(unwind));
        }
        TerminatorKind::Assert { cond, expected, msg, target, unwind } => {
            out.str("assert");
            out.obj_begin();
            out.key("cond");
            operand(cx, out, cond, tenv);
            out.kbool("expected", *expected);
            let (k, ops): (String, Vec<&Operand<'tcx>>) = match &**msg {
                AssertKind::BoundsCheck { len, index } => ("BoundsCheck".into(), vec![len, index]),
                AssertKind::Overflow(op, a, b) => (format!("Overflow:{:?}", op), vec![a, b]),
                AssertKind::OverflowNeg(a) => ("OverflowNeg".into(), vec![a]),
                AssertKind::DivisionByZero(a) => ("DivisionByZero".into(), vec![a]),
                AssertKind::RemainderByZero(a) => ("RemainderByZero".into(), vec![a]),
                o => (format!("Other:{:?}", o).split('(').next().unwrap_or("Other").to_string(), vec![]),
            };
            out.kstr("kind", &k);
            out.key("ops");
            out.arr_begin();
            for o in ops {
                operand(cx, out, o, tenv);
            }
            out.arr_end();
            out.kint("target", target.as_usize() as i128);
            out.key("unwind");
            bbopt(out, unwind_target(unwind));
            out.kint("line", line as i128);
            if let Some(m) = cx.macro_name(t.source_info.span) {
                out.kstr("m", &m);
            }
            out.obj_end();
        }
        TerminatorKind::Call { func, args, destination, target, unwind, fn_span, .. } => {
            out.str("call");
            out.obj_begin();
            out.key("f");
            out.obj_begin();
            if let Some((d, gargs)) = func.const_fn_def() {
                let orig = cx.path(d);
                let mut resolved = orig.clone();
                let mut k = "item";
                let mut local = d.is_local();
                let mut recv_ty: Option<usize> = None;
                match Instance::try_resolve(tcx, tenv, d, gargs) {
                    Ok(Some(inst)) => {
                        let rd = inst.def_id();
                        resolved = cx.path(rd);
                        local = rd.is_local();
                        k = match inst.def {
                            InstanceKind::Item(_) => {
                                if tcx.def_kind(rd) == DefKind::Closure {
                                    "closure"
                                } else {
                                    "item"
                                }
                            }
                            InstanceKind::Virtual(..) => "virtual",
                            InstanceKind::Intrinsic(_) => "intrinsic",
                            InstanceKind::ClosureOnceShim { .. } => "closure_once",
                            InstanceKind::FnPtrShim(..) => "fnptr_shim",
                            InstanceKind::DropGlue(..) => "drop_glue",
                            InstanceKind::CloneShim(..) => "clone_shim",
                            InstanceKind::ReifyShim(..) => "reify",
                            _ => "shim",
                        };
                    }
                    _ => {
                        if tcx.trait_of_assoc(d).is_some() {
                            k = "unres_trait";
                        }
                    }
                }
                // receiver (first generic arg) type for trait methods
                if tcx.trait_of_assoc(d).is_some() {
                    if let Some(t0) = gargs.types().next() {
                        recv_ty = Some(cx.ty(t0));
                    }
                }
                out.kstr("p", &resolved);
                if resolved != orig {
                    out.kstr("o", &orig);
                }
                out.kstr("k", k);
                out.kbool("local", local);
                let a = cx.fix(crate::np!(format!("{:?}", gargs)));
                out.kstr("substs", &a);
                if let Some(r) = recv_ty {
                    out.kint("self_ty", r as i128);
                }
            } else {
                out.kstr("k", "fnptr");
                out.key("op");
                operand(cx, out, func, tenv);
                let ft = func.ty(&body.local_decls, tcx);
                let fi = cx.ty(ft);
                out.kint("ty", fi as i128);
            }
            out.obj_end();
            out.key("args");
            out.arr_begin();
            for a in args.iter() {
                operand(cx, out, &a.node, tenv);
            }
            out.arr_end();
            out.key("dest");
            place(cx, out, destination);
            out.key("target");
            bbopt(out, *target);
            out.key("unwind");
            bbopt(out, unwind_target(unwind));
            out.kint("line", line as i128);
            if let Some(m) = cx.macro_name(*fn_span) {
                out.kstr("m", &m);
            } else if let Some(m) = cx.macro_name(t.source_info.span) {
                out.kstr("m", &m);
            }
            out.obj_end();
        }
        o => {
            out.str("other");
            let s = format!("{:?}", o);
            out.str(s.split('(').next().unwrap_or(""));
        }
    }
    out.arr_end();
}
