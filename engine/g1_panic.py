#!/usr/bin/env python3
"""G1: panic-site inventory with guard discharge over MIR.

Every reachable panic-capable construct (MIR Assert, call to a documented-to-panic API, explicit panic) must be
  discharged  by a local proof rule over the MIR (dominating comparison on the same places, constant index under a
              dominating length test, widening arithmetic on lengths, ...), each rule printing the guard it used; or
  audited     in tables/audited_sites.json with the invariant it relies on and the guards that must still dominate it; or
  known       listed in known_findings.json with the concrete input that makes the real code panic.
Anything else is a violation.  This is a *may* analysis: a report means "no proof and no audit".
"""
import json
import os
import re
from collections import defaultdict

import mirutil

VERIF = os.path.dirname(os.path.dirname(os.path.abspath(__file__)))

# external APIs documented to panic (for the crate versions in Cargo.lock); value = short reason
PANIC_API = [
    (r"^core::option::Option::<.*>::(unwrap|expect)$", "unwrap on None"),
    (r"^core::result::Result::<.*>::(unwrap|expect|unwrap_err|expect_err)$", "unwrap on Err"),
    (r"^<.* as core::ops::index::Index(Mut)?<.*>>::index(_mut)?$", "index out of bounds / missing key"),
    (r"^core::slice::index::<impl core::ops::index::Index(Mut)?<.*> for \[T\]>::index(_mut)?$", "slice index out of bounds"),
    (r"^core::str::traits::<impl core::ops::index::Index(Mut)?<.*> for str>::index(_mut)?$", "str slice out of bounds / not on a char boundary"),
    (r"^alloc::vec::Vec::<.*>::(remove|insert|swap_remove|drain|split_off|swap)$", "index out of bounds"),
    (r"^alloc::string::String::(remove|insert|insert_str|drain|replace_range|split_off|truncate)$", "index out of bounds / char boundary"),
    (r"^core::slice::<impl \[T\]>::(copy_from_slice|clone_from_slice|split_at|split_at_mut|swap|chunks|chunks_exact|windows|rotate_left|rotate_right)$", "length mismatch / index out of bounds"),
    (r"^core::str::<impl str>::(split_at)$", "index out of bounds"),
    (r"^core::cell::RefCell::<.*>::(borrow|borrow_mut)$", "already borrowed"),
    (r"^core::iter::traits::iterator::Iterator::step_by$", "step of zero"),
    (r"^chrono::offset::TimeZone::(ymd|yo|isoywd|timestamp|timestamp_millis|timestamp_nanos|datetime_from_str)$", "invalid or ambiguous date"),
    (r"^chrono::date::Date::<.*>::(and_hms|and_hms_milli|and_hms_micro|and_hms_nano|and_time|succ|pred)$", "invalid or non-existent local time"),
    (r"^chrono::offset::fixed::FixedOffset::(east|west)$", "offset out of bounds"),
    (r"^chrono::naive::date::NaiveDate::(from_ymd|from_yo|from_isoywd|from_num_days_from_ce|succ|pred|and_hms|and_hms_milli|and_hms_micro|and_hms_nano)$", "invalid date/time"),
    (r"^chrono::naive::time::NaiveTime::(from_hms|from_hms_milli|from_hms_micro|from_hms_nano|from_num_seconds_from_midnight)$", "invalid time"),
    (r"^chrono::(time_delta::TimeDelta|duration::Duration)::(seconds|milliseconds|minutes|hours|days|weeks)$", "duration out of bounds"),
    (r"^<chrono::.* as core::ops::arith::(Add|Sub)<.*>>::(add|sub)$", "date/time arithmetic overflow"),
    (r"^chrono::offset::local::Local::(today|now)$", "local time-zone lookup"),
    (r"^chrono::offset::LocalResult::<.*>::unwrap$", "ambiguous or non-existent local time"),
    (r"^chrono::datetime::DateTime::<.*>::(date|with_timezone)$", None),  # total
    (r"^regex::regex::string::Captures::<.*>::(index)$", "no such group"),
    (r"^<uriparse::uri::URI<.*> as core::convert::TryFrom<&.*(str|\[u8\])>>::try_from$", "uriparse 0.6.4 unwraps the conversion of a SchemelessPathStartsWithColonSegment error (input \":x\")"),
    (r"^base64::(decode::decode_config_slice|encode::encode_config_slice|decode_config_slice|encode_config_slice)$", "output slice too small"),
    (r"^core::num::<impl (u|i)\d+>::(pow|abs|div_euclid|rem_euclid|next_power_of_two)$", "arithmetic overflow"),
    (r"^core::num::<impl (u|i)size>::(pow|abs|div_euclid|rem_euclid|next_power_of_two)$", "arithmetic overflow"),
    # integer operators applied to references (or called as functions) are calls into core: the overflow / zero-divisor check sits in core's body, not in the caller's MIR
    (r"^<&?(u|i)(\d+|size) as core::ops::arith::(Add|Sub|Mul|Neg)(<.*>)?>::(add|sub|mul|neg)$", "arithmetic overflow (integer operator on a reference)"),
    (r"^<&?(u|i)(\d+|size) as core::ops::arith::(Div|Rem)(<.*>)?>::(div|rem)$", "division by zero / overflow (integer operator on a reference)"),
    (r"^<(u|i)(\d+|size) as core::ops::arith::(Add|Sub|Mul|Div|Rem)Assign<.*>>::(add|sub|mul|div|rem)_assign$", "arithmetic overflow / division by zero (compound assignment with a reference)"),
    (r"^core::char::methods::<impl char>::(to_digit|is_digit|from_digit)$", "radix out of range"),
    (r"^core::char::convert::from_digit$", "radix out of range"),
    # since Rust 1.81 the slice sorts detect a comparison that is not a total order and panic ("user-provided comparison function does not correctly implement a total order")
    (r"^(core|alloc)::slice::<impl \[T\]>::(sort_by|sort_unstable_by|sort_by_key|sort_unstable_by_key|sort_by_cached_key|select_nth_unstable_by|select_nth_unstable_by_key)$", "comparison that is not a total order"),
    (r"^core::slice::<impl \[T\]>::(first|last|get|get_mut|iter|len|is_empty|contains|to_vec|reverse|iter_mut|last_mut|as_ptr|as_mut_ptr|join|concat|starts_with|ends_with)$", None),
    (r"^alloc::vec::Vec::<.*>::(with_capacity|reserve|reserve_exact)$", None),  # capacity overflow: allocation failure class, not input driven
    (r"^core::panicking::(panic|panic_fmt|panic_explicit|panic_display|unreachable_display|panic_nounwind|panic_const::.*|assert_failed|panic_bounds_check|panic_str)$", "explicit panic"),
    (r"^std::rt::begin_panic", "explicit panic"),
    (r"^core::option::(expect_failed|unwrap_failed)$", "explicit panic"),
    (r"^core::result::unwrap_failed$", "explicit panic"),
    (r"^std::process::(exit|abort)$", "process exit"),
    (r"^alloc::ffi::c_str::CString::new$", None),   # returns Result; the unwrap is the site
    (r"^std::sync::poison::.*::(unwrap|expect)$", "poisoned lock"),
    (r"^std::thread::.*::(join)$", None),
]
PANIC_API_C = [(re.compile(p), why) for p, why in PANIC_API]


def panic_api(p):
    for rx, why in PANIC_API_C:
        if rx.search(p):
            return why
    return False


INT_TYPES = ("u8", "u16", "u32", "u64", "u128", "usize", "i8", "i16", "i32", "i64", "i128", "isize", "char", "bool")
# every generic argument of the callee is a totally ordered primitive type
INT_SUBSTS = re.compile(r"^\[(&?(%s)(, )?)+\]$" % "|".join(INT_TYPES))

class Site:
    __slots__ = ("fn", "kind", "what", "block", "line", "ops", "macro", "occ", "call")

    def __init__(self, fn, kind, what, block, line, ops, macro=None, call=None):
        self.fn, self.kind, self.what, self.block, self.line, self.ops, self.macro, self.call = fn, kind, what, block, line, ops, macro, call
        self.occ = 0

    def key(self):
        return "%s|%s|%s#%d" % (self.fn, self.kind, self.what, self.occ)


class Analyzer:
    """per-body fact computation and discharge rules"""

    def __init__(self, F, name):
        self.F = F
        self.name = name
        self.b = F.bodies[name]
        self.B = mirutil.Body(F, self.b)
        self.blocks = self.b["blocks"]
        self.dom = self.B.dominators()
        self.preds = self.B.preds()
        self._facts = {}
        self._edge_facts = None

    # ------------------------------------------------------------------ symbolic values
    def root(self, place_or_local, depth=0):
        """root local of a reference chain (through copies / reborrows / derefs): identifies 'the same collection'"""
        l = place_or_local[0] if isinstance(place_or_local, list) else place_or_local
        seen = set()
        while depth < 30:
            depth += 1
            if l in seen or self.B.is_arg(l):
                return l
            seen.add(l)
            defs = self.B.defs.get(l, [])
            if len(defs) != 1:
                return l
            bi, si, kind, st = defs[0]
            if kind == "call":
                p = st["f"].get("p") or ""
                # transparent views of the same storage
                if re.search(r"::(deref|as_slice|as_vec|as_ref|borrow|as_str|as_bytes|iter|clone)$", p) and st["args"] and st["args"][0][0] in ("C", "M"):
                    l = st["args"][0][1][0]
                    continue
                return l
            rv = st[2]
            if rv[0] in ("Ref", "RawPtr"):
                pl = rv[2]
                if all(e == "*" or (isinstance(e, list) and e[0] in (".",)) for e in pl[1:]):
                    # &(*x) or &x.field : keep field path as part of identity
                    flds = tuple(e[1] for e in pl[1:] if isinstance(e, list))
                    if flds:
                        return (self.root(pl[0], depth), flds)
                    l = pl[0]
                    continue
                return l
            if rv[0] == "Use" and rv[1][0] in ("C", "M"):
                pl = rv[1][1]
                flds = tuple(e[1] for e in pl[1:] if isinstance(e, list) and e[0] == ".")
                if len(pl) == 1 or all(e == "*" for e in pl[1:]):
                    l = pl[0]
                    continue
                if flds and all(e == "*" or (isinstance(e, list) and e[0] == ".") for e in pl[1:]):
                    return (self.root(pl[0], depth), flds)
                return l
            if rv[0] == "Cast" and rv[2][0] in ("C", "M") and len(rv[2][1]) == 1:
                l = rv[2][1][0]
                continue
            return l
        return l

    def place_root(self, pl):
        flds = tuple(e[1] for e in pl[1:] if isinstance(e, list) and e[0] == ".")
        r = self.root(pl[0])
        if flds:
            return (r, flds)
        return r

    def sym(self, op, depth=0):
        """symbolic value of an integer/bool operand: ('c', n) | ('len', root) | ('l', local) | ('add', sym, c) | ('sub', sym, c)"""
        if op[0] == "K":
            if len(op) > 3 and isinstance(op[3], int):
                return ("c", op[3])
            return ("k", op[1])
        if op[0] not in ("C", "M"):
            return ("?",)
        pl = op[1]
        if len(pl) != 1:
            if len(pl) == 2 and isinstance(pl[1], list) and pl[1][0] == ".":
                # field of an overflow-checked tuple: (_x.0) is the arithmetic result
                return self.sym_local(pl[0], depth, field=pl[1][1])
            return ("p", json.dumps(pl))
        return self.sym_local(pl[0], depth)

    def sym_local(self, l, depth=0, field=None):
        if depth > 12:
            return ("l", l)
        defs = self.B.defs.get(l, [])
        if len(defs) != 1:
            return ("l", l) if field is None else ("p", "%d.%s" % (l, field))
        bi, si, kind, st = defs[0]
        if kind == "call":
            p = st["f"].get("p") or ""
            if re.search(r"(slice::<impl \[T\]>|vec::Vec::<.*>|string::String|str::<impl str>|VecDeque::<.*>|Values)::len$", p) and st["args"]:
                return ("len", self.operand_root(st["args"][0]))
            if re.search(r"ExactSizeIterator>::len$", p):
                return ("l", l)
            if p.endswith("::count") and "Iterator" in p:
                return ("count", l)
            return ("l", l)
        rv = st[2]
        k = rv[0]
        if k == "Use":
            return self.sym(rv[1], depth + 1)
        if k == "Cast" and ("IntToInt" in rv[1]):
            return self.sym(rv[2], depth + 1)
        if k == "Un" and rv[1] == "PtrMetadata":
            return ("len", self.operand_root(rv[2]))
        if k == "Other" and rv[1].startswith("Len("):
            return ("l", l)
        if k == "Bin" and field in (None, 0):
            op = rv[1].replace("WithOverflow", "")
            a, b = self.sym(rv[2], depth + 1), self.sym(rv[3], depth + 1)
            if op == "Add" and b[0] == "c":
                return ("add", a, b[1])
            if op == "Sub" and b[0] == "c":
                return ("add", a, -b[1])
            if op == "Add" and a[0] == "c":
                return ("add", b, a[1])
        return ("l", l) if field is None else ("p", "%d.%s" % (l, field))

    def operand_root(self, op):
        if op[0] in ("C", "M"):
            return self.place_root(op[1])
        return ("k", op[1])

    def range_operand(self, op):
        """(start sym | None, end sym | None, kind) if the operand is a Range / RangeFrom / RangeTo aggregate built in this body"""
        if op[0] not in ("C", "M") or len(op[1]) != 1:
            return None
        if "ops::range::Range" not in self.B.local_ty(op[1][0]):
            return None
        defs = self.B.defs.get(op[1][0], [])
        if len(defs) != 1 or defs[0][2] != "assign":
            return None
        rv = defs[0][3][2]
        if rv[0] != "Agg" or not isinstance(rv[1], list) or rv[1][0] != "adt":
            return None
        nm = rv[1][1].split("::")[-1]
        ops = rv[2]
        if nm == "Range" and len(ops) == 2:
            return (self.sym(ops[0]), self.sym(ops[1]), nm)
        if nm == "RangeFrom" and len(ops) == 1:
            return (self.sym(ops[0]), None, nm)
        if nm == "RangeTo" and len(ops) == 1:
            return (None, self.sym(ops[0]), nm)
        return None

    def intervals(self):
        if getattr(self, "_iv", None) is None:
            self._iv = Intervals(self)
        return self._iv

    def is_local_counter(self, l):
        """local whose every definition is a constant or `l + small constant` (through the overflow-checked tuple), of a 64-bit integer type"""
        if self.B.local_ty(l) not in ("usize", "u64", "i64", "isize", "u128", "i128"):
            return False
        defs = self.B.defs.get(l, [])
        if not defs or self.B.is_arg(l):
            return False
        for (bi, si, kind, st) in defs:
            if kind != "assign":
                return False
            rv = st[2]
            if rv[0] == "Use" and rv[1][0] == "K":
                continue
            if rv[0] == "Use" and rv[1][0] in ("C", "M") and len(rv[1][1]) == 2 and isinstance(rv[1][1][1], list) and rv[1][1][1] == [".", 0]:
                t = rv[1][1][0]
                td = self.B.defs.get(t, [])
                if len(td) == 1 and td[0][2] == "assign" and td[0][3][2][0] == "Bin" and td[0][3][2][1] == "AddWithOverflow":
                    a, b = td[0][3][2][2], td[0][3][2][3]
                    if a[0] in ("C", "M") and a[1] == [l] and b[0] == "K" and len(b) > 3 and isinstance(b[3], int) and 0 <= b[3] <= 4096:
                        continue
            return False
        return True

    # ------------------------------------------------------------------ dominating facts
    def edge_facts(self):
        """facts[(S, T)] for switch edges S->T:  list of facts that hold when control goes from S to T"""
        if self._edge_facts is not None:
            return self._edge_facts
        ef = defaultdict(list)
        for si, bl in enumerate(self.blocks):
            t = bl["t"]
            if t[0] != "switch":
                continue
            d = t[1]
            targets = t[2]
            other = t[3]
            vals = [v for v, _ in targets]
            for v, tb in targets:
                for f in self.cond_facts(d, ("eq", v)):
                    ef[(si, tb)].append(f)
            for f in self.cond_facts(d, ("notin", vals)):
                ef[(si, other)].append(f)
        self._edge_facts = ef
        return ef

    def cond_facts(self, d, how, depth=0):
        """facts implied by `operand d == v` / `d not in vals`"""
        out = []
        if d[0] not in ("C", "M") or depth > 6:
            return out
        pl = d[1]
        if len(pl) == 2 and isinstance(pl[1], list) and pl[1][0] == ".":
            # a component of a tuple built in this body: `match (a.is_some(), b.is_empty()) { (true, false) => ..` tests the components' own conditions
            tdefs = self.B.defs.get(pl[0], [])
            if len(tdefs) == 1 and tdefs[0][2] == "assign" and tdefs[0][3][2][0] == "Agg" and tdefs[0][3][2][1] == "tuple":
                ops = tdefs[0][3][2][2]
                if pl[1][1] < len(ops):
                    return self.cond_facts(ops[pl[1][1]], how, depth + 1)
            return out
        if len(pl) != 1:
            return out
        l = pl[0]
        defs = self.B.defs.get(l, [])
        if len(defs) != 1:
            return out
        bi, si, kind, st = defs[0]
        truth = None
        if how[0] == "eq":
            truth = (how[1] != 0)
        elif how[0] == "notin" and how[1] == [0]:
            truth = True
        elif how[0] == "notin" and how[1] == [1]:
            truth = False
        if kind == "call":
            p = st["f"].get("p") or ""
            args = st["args"]
            if re.search(r"::len$", p) and args:
                r = self.operand_root(args[0])
                if how[0] == "eq":
                    out.append(("len_eq", r, how[1]))
                else:
                    out.append(("len_notin", r, tuple(how[1])))
            elif re.search(r"::is_empty$", p) and args and truth is not None:
                r = self.operand_root(args[0])
                out.append(("len_eq", r, 0) if truth else ("len_gt", r, 0))
            elif re.search(r"Option::<.*>::is_some$", p) and args and truth is not None:
                out.append(("variant", self.operand_root(args[0]), "Some" if truth else "None"))
            elif re.search(r"Option::<.*>::is_none$", p) and args and truth is not None:
                out.append(("variant", self.operand_root(args[0]), "None" if truth else "Some"))
            elif re.search(r"Result::<.*>::is_ok$", p) and args and truth is not None:
                out.append(("variant", self.operand_root(args[0]), "Ok" if truth else "Err"))
            elif re.search(r"(PartialOrd::(lt|le|gt|ge)|cmp::impls::<impl core::cmp::PartialOrd.*>::(lt|le|gt|ge))$", p) and len(args) == 2 and truth is not None and self.total_order_operands(st["f"]):
                op = {"lt": "<", "le": "<=", "gt": ">", "ge": ">="}[p.split("::")[-1]]
                a, b2 = self.sym_deref(args[0]), self.sym_deref(args[1])
                out.append(("cmp", op if truth else NEG[op], a, b2))
            elif re.search(r"ops::range::Range(Inclusive)?::<.*>::contains", p) and INT_SUBSTS.match(st["f"].get("substs") or "") and len(args) == 2 and truth is True and self.range_bounds(args[0], line=st.get("line")) is not None:
                # `(lo..=hi).contains(&x)` holds: lo <= x and x <= hi (x < hi for a half-open range)
                lo, hi, incl = self.range_bounds(args[0], line=st.get("line"))
                x = self.sym_deref(args[1])
                out.append(("cmp", ">=", x, lo))
                out.append(("cmp", "<=" if incl else "<", x, hi))
            elif truth is not None:
                out.append(("call", p, truth, tuple(self.operand_root(a) if a[0] in ("C", "M") else ("k", a[1]) for a in args)))
            return out
        rv = st[2]
        k = rv[0]
        if k == "Use":
            return self.cond_facts(rv[1], how, depth + 1)
        if k == "Un" and rv[1] == "Not" and truth is not None:
            return self.cond_facts(rv[2], ("eq", 0) if truth else ("notin", [0]), depth + 1)
        if k == "Bin" and truth is not None:
            op = {"Lt": "<", "Le": "<=", "Gt": ">", "Ge": ">=", "Eq": "==", "Ne": "!="}.get(rv[1])
            if op:
                a, b2 = self.sym(rv[2]), self.sym(rv[3])
                out.append(("cmp", op if truth else NEG[op], a, b2))
        if k == "Disc":
            r = self.place_root(rv[1])
            ty = self.B.local_ty(rv[1][0])
            if how[0] == "eq":
                out.append(("disc_eq", r, how[1]))
            else:
                out.append(("disc_notin", r, tuple(how[1])))
        if k == "Un" and rv[1] == "PtrMetadata":
            r = self.operand_root(rv[2])
            if how[0] == "eq":
                out.append(("len_eq", r, how[1]))
            else:
                out.append(("len_notin", r, tuple(how[1])))
        return out

    def enumerate_source(self, op, depth=0):
        """root of the collection whose `iter().enumerate()` produced this index operand (`for (i, x) in a.iter().enumerate()`), else None"""
        if op[0] not in ("C", "M") or depth > 12:
            return None
        l = op[1][0]
        defs = self.B.defs.get(l, [])
        if len(defs) != 1:
            return None
        bi, si, kind, st = defs[0]
        if kind == "call":
            p = st["f"].get("o") or st["f"].get("p") or ""
            if re.search(r"Iterator::enumerate$", p) and st["args"]:
                # the enumerated iterator: slice::iter / Vec deref / into_iter of a collection
                return self.operand_root(st["args"][0]) if st["args"][0][0] in ("C", "M") else None
            if re.search(r"(Iterator::next|IntoIterator::into_iter|::iter|::deref)$", p) and st["args"]:
                return self.enumerate_source(st["args"][0], depth + 1)
            return None
        rv = st[2]
        if rv[0] == "Use" and rv[1][0] in ("C", "M"):
            flds = [e[1] for e in rv[1][1][1:] if isinstance(e, list) and e[0] == "."]
            if flds and flds[-1] != 0:
                return None          # the item (field 1) of the (index, item) pair, not the index
            return self.enumerate_source(["C", [rv[1][1][0]]], depth + 1)
        if rv[0] in ("Ref", "RawPtr"):
            return self.enumerate_source(["C", [rv[2][0]]], depth + 1)
        if rv[0] == "Cast" and rv[2][0] in ("C", "M"):
            return self.enumerate_source(["C", [rv[2][1][0]]], depth + 1)
        return None

    def count_source(self, op, depth=0):
        """root of the collection of which this operand counts items: `x.iter()[.take_while(p) | .filter(p) | .skip(n) | .skip_while(p) | .take(n) | .rev()].count()` (or the
        position / index found by `position`), else None.  Such a number is at most x.len(): adaptors that can only drop items do not lengthen the iteration."""
        if op[0] not in ("C", "M") or depth > 12:
            return None
        l = op[1][0]
        defs = self.B.defs.get(l, [])
        if len(defs) != 1:
            return None
        bi, si, kind, st = defs[0]
        if kind == "call":
            p = st["f"].get("o") or st["f"].get("p") or ""
            if re.search(r"Iterator::count$", p) and st["args"]:
                return self.shrinking_chain_root(st["args"][0])
            return None
        rv = st[2]
        if rv[0] == "Use" and rv[1][0] in ("C", "M") and len(rv[1][1]) == 1:
            return self.count_source(["C", [rv[1][1][0]]], depth + 1)
        return None

    def shrinking_chain_root(self, op, depth=0):
        if op[0] not in ("C", "M") or depth > 12:
            return None
        l = op[1][0]
        defs = self.B.defs.get(l, [])
        if len(defs) != 1:
            return None
        bi, si, kind, st = defs[0]
        if kind == "call":
            p = st["f"].get("o") or st["f"].get("p") or ""
            if re.search(r"Iterator::(take_while|filter|skip|skip_while|take|rev|copied|cloned|by_ref|peekable|enumerate|map|inspect|step_by|fuse)$", p) and st["args"]:
                return self.shrinking_chain_root(st["args"][0], depth + 1)
            if re.search(r"(IntoIterator::into_iter|slice::<impl \[T\]>::iter|::iter|::chars|::bytes)$", p) and st["args"]:
                return self.operand_root(st["args"][0]) if st["args"][0][0] in ("C", "M") else None
            return None
        rv = st[2]
        if rv[0] == "Use" and rv[1][0] in ("C", "M"):
            return self.shrinking_chain_root(["C", [rv[1][1][0]]], depth + 1)
        if rv[0] in ("Ref", "RawPtr"):
            return self.shrinking_chain_root(["C", [rv[2][0]]], depth + 1)
        return None

    def equal_lengths(self, r1, r2, facts):
        """a dominating test established len(r1) == len(r2)"""
        for f in facts:
            if f[0] == "cmp" and f[1] == "==" and f[2][0] == "len" and f[3][0] == "len" and {f[2][1], f[3][1]} == {r1, r2}:
                return True
        return False

    def total_order_operands(self, f):
        """a comparison through PartialOrd is a fact about an order (and its negation the converse fact) only for the totally ordered primitive types: for f32/f64 or a
        user type with incomparable values (a FeelNumber that is NaN passes `(0..60).contains(&n)`) `!(a < b)` does not give `a >= b`"""
        p = f.get("p") or ""
        m = re.search(r"<impl core::cmp::PartialOrd for (\w+)>::", p)
        if m:
            return m.group(1) in INT_TYPES
        return bool(INT_SUBSTS.match(f.get("substs") or ""))

    def range_bounds(self, op, depth=0, line=None):
        """(lo sym, hi sym, inclusive) of a range the operand refers to, when it is built in this body from RangeInclusive::new(lo, hi) or Range { start, end }"""
        if op[0] == "K" and "::promoted[" in str(op[1]) and line is not None:
            # a literal range promoted to a constant: its bounds are read from the (type-checked) source expression of the `contains` call on that line
            from facts import find_hir, strip
            h = self.F.hir.get(self.name)
            if h is None and self.b.get("kind") == "closure":
                h = self.F.hir.get(self.b.get("parent"))
            hits = [x for x, _ in find_hir(h["body"], lambda x: x.get("k") == "MethodCall" and x.get("method") == "contains" and x.get("l") == line)] if h else []
            if len(hits) == 1:
                r = strip(hits[0]["recv"])
                if r.get("k") == "Call" and (r.get("callee") or "").endswith("RangeInclusive::<Idx>::new") and len(r.get("args", [])) == 2:
                    a, b2 = strip(r["args"][0]), strip(r["args"][1])
                    if a.get("k") == "Lit" and b2.get("k") == "Lit" and isinstance(a.get("v"), int) and isinstance(b2.get("v"), int):
                        return (("c", a["v"]), ("c", b2["v"]), True)
                if r.get("k") == "Struct" and (r.get("path") or "").endswith("::Range"):
                    f = {x["name"]: strip(x["e"]) for x in r.get("fields", [])}
                    if f.get("start", {}).get("k") == "Lit" and f.get("end", {}).get("k") == "Lit":
                        return (("c", f["start"]["v"]), ("c", f["end"]["v"]), False)
            return None
        if op[0] not in ("C", "M") or depth > 4:
            return None
        l = op[1][0]
        defs = self.B.defs.get(l, [])
        if len(defs) != 1:
            return None
        bi, si, kind, st = defs[0]
        if kind == "call":
            p = st["f"].get("p") or ""
            if re.search(r"RangeInclusive::<.*>::new$", p) and len(st["args"]) == 2:
                return (self.sym(st["args"][0]), self.sym(st["args"][1]), True)
            return None
        rv = st[2]
        if rv[0] == "Ref":
            return self.range_bounds(["C", [rv[2][0]]], depth + 1, line) if rv[2][1:] in ([], ["*"]) else None
        if rv[0] == "Use":
            return self.range_bounds(rv[1], depth + 1, line)
        if rv[0] == "Agg" and isinstance(rv[1], list) and rv[1][0] == "adt" and rv[1][1].split("::")[-1] == "Range" and len(rv[2]) == 2:
            return (self.sym(rv[2][0]), self.sym(rv[2][1]), False)
        return None

    def sym_deref(self, op):
        """symbolic value behind a reference operand (&usize passed to PartialOrd::lt)"""
        if op[0] in ("C", "M") and len(op[1]) == 1:
            defs = self.B.defs.get(op[1][0], [])
            if len(defs) == 1 and defs[0][2] == "assign" and defs[0][3][2][0] == "Ref":
                pl = defs[0][3][2][2]
                if len(pl) == 2 and pl[1] == "*":
                    # a reborrow `&*r`: the value behind r
                    return self.sym_deref(["C", [pl[0]]])
                return self.sym(["C", pl])
        return self.sym(op)

    def facts_at(self, bi, stale_ok=False):
        """all facts from switch edges that dominate block bi. With stale_ok the facts are the tests that were made on the way (used to describe the
        guards an audit relies on); without it, facts about something that may have been written between the test and the site are dropped
        (used by the discharge rules)."""
        if (bi, stale_ok) in self._facts:
            return self._facts[(bi, stale_ok)]
        ef = self.edge_facts()
        out = []
        for (s, t), fs in ef.items():
            if t in self.dom[bi] and t != s:
                # the edge must be the only way into t from s: t's predecessors are only s (possibly via several values -> then facts differ; require single)
                ps = set(self.preds.get(t, []))
                if ps == {s}:
                    # t reached from s by exactly this edge? if several switch values lead to t the per-value facts are a disjunction: keep only when unique
                    term = self.blocks[s]["t"]
                    n_edges = sum(1 for _, tb in term[2] if tb == t) + (1 if term[3] == t else 0)
                    if n_edges == 1:
                        mut = self.mutated_between(t, bi)
                        out.extend(f for f in fs if stale_ok or not self.is_stale(f, mut))
        self._facts[(bi, stale_ok)] = out
        return out

    # ------------------------------------------------------------------ staleness of facts
    def base_of(self, r):
        while isinstance(r, tuple):
            r = r[0]
        return r

    def sym_bases(self, x, out):
        if not isinstance(x, tuple) or not x:
            return
        if x[0] in ("l", "count") and isinstance(x[1], int):
            out.add(x[1])
            out.add(self.base_of(self.root(x[1])))
        elif x[0] == "p":
            try:
                pl = json.loads(x[1])
                if isinstance(pl, list) and pl and isinstance(pl[0], int):
                    out.add(pl[0])
                    out.add(self.base_of(self.root(pl[0])))
            except ValueError:
                m = re.match(r"(\d+)", x[1])
                if m:
                    out.add(int(m.group(1)))
        elif x[0] == "len":
            out.add(self.base_of(x[1]))
        elif x[0] == "add":
            self.sym_bases(x[1], out)

    def fact_bases(self, f):
        """(bases whose any mutation voids the fact, bases whose resizing voids the fact)"""
        anyb, lenb = set(), set()
        if f[0] == "cmp":
            for x in (f[2], f[3]):
                if isinstance(x, tuple) and x and x[0] == "len":
                    lenb.add(self.base_of(x[1]))
                elif isinstance(x, tuple) and x and x[0] == "add" and isinstance(x[1], tuple) and x[1] and x[1][0] == "len":
                    lenb.add(self.base_of(x[1][1]))
                else:
                    self.sym_bases(x, anyb)
        elif f[0] in ("len_eq", "len_gt", "len_notin"):
            lenb.add(self.base_of(f[1]))
        elif f[0] in ("variant", "disc_eq", "disc_notin"):
            anyb.add(self.base_of(f[1]))
        elif f[0] == "call":
            for r in f[3]:
                if not (isinstance(r, tuple) and r and r[0] == "k"):
                    anyb.add(self.base_of(r))
        anyb.discard(None)
        lenb.discard(None)
        return anyb, lenb

    def is_stale(self, f, mut):
        anyb, lenb = self.fact_bases(f)
        for b in anyb:
            if b in mut:
                return True
        for b in lenb:
            if mut.get(b) in ("assign", "any"):
                return True
        return False

    NON_RESIZING = re.compile(r"::(iter_mut|index_mut|get_mut|get_unchecked_mut|sort\w*|reverse|swap|last_mut|first_mut|as_mut_slice|as_mut|deref_mut|split_at_mut|fill|copy_from_slice|clone_from_slice|borrow_mut|set_entry|make_ascii_\w+)$")

    def mutated_between(self, t, bi):
        """base locals that may be written on a path from block t (entered through the fact's edge) to the site in block bi without re-entering t,
        with the kind of write: 'assign' (a statement assigns the place), 'any' (a `&mut` borrow of it is handed to a call that may do anything),
        'elements' (handed to a call known not to change the length). A fact established on the edge may be stale at the site
        (`while i < n { i += 2; v[i] }`)."""
        key = (t, bi)
        cache = self.__dict__.setdefault("_mut_cache", {})
        if key in cache:
            return cache[key]
        succ = lambda x: [y for y in mirutil.normal_successors(self.blocks[x]["t"]) if y != t]
        fwd, work = {t}, [t]
        while work:
            x = work.pop()
            for y in succ(x):
                if y not in fwd:
                    fwd.add(y)
                    work.append(y)
        bwd, work = {bi}, [bi]
        while work:
            x = work.pop()
            if x == t:
                continue
            for y in self.preds.get(x, []):
                if y not in bwd and y in fwd:
                    bwd.add(y)
                    work.append(y)
        mids = fwd & bwd
        out = {}

        def note(b, kind):
            if b is None:
                return
            rank = {"elements": 0, "any": 1, "assign": 2}
            if b not in out or rank[kind] > rank[out[b]]:
                out[b] = kind
        mutrefs = {}
        for x in mids:
            for st in self.blocks[x]["s"]:
                if st[0] == "A" and st[2][0] in ("Ref", "RawPtr") and st[2][1] == "mut" and len(st[1]) == 1:
                    mutrefs[st[1][0]] = self.base_of(self.root(st[2][2][0]))
        for x in mids:
            bl = self.blocks[x]
            term = bl["t"]
            for st in bl["s"]:
                if st[0] != "A":
                    continue
                d = st[1]
                if len(d) == 1:
                    # a plain (re)definition of a local matters only for locals with several definitions (single definitions are followed symbolically)
                    if len(self.B.defs.get(d[0], [])) > 1:
                        note(d[0], "assign")
                else:
                    note(d[0], "assign")
                    note(self.base_of(self.root(d[0])), "assign")
            if term[0] == "call" and x != bi:
                d = term[1].get("dest")
                if d:
                    if len(d) > 1 or len(self.B.defs.get(d[0], [])) > 1:
                        note(d[0], "assign")
                        if len(d) > 1:
                            note(self.base_of(self.root(d[0])), "assign")
                p = term[1]["f"].get("p") or ""
                for a in term[1].get("args", []):
                    if a[0] in ("C", "M") and a[1][0] in mutrefs:
                        note(mutrefs[a[1][0]], "elements" if self.NON_RESIZING.search(p) else "any")
                    elif a[0] in ("C", "M") and "&mut" in self.B.local_ty(a[1][0]):
                        note(self.base_of(self.root(a[1][0])), "elements" if self.NON_RESIZING.search(p) else "any")
        cache[key] = out
        return out

    # ------------------------------------------------------------------ derived knowledge
    def len_lower_bound(self, r, facts):
        """greatest n with len(r) >= n provable from the facts"""
        lb = 0
        for f in facts:
            if f[0] == "len_eq" and f[1] == r:
                lb = max(lb, f[2])
            elif f[0] == "len_gt" and f[1] == r:
                lb = max(lb, f[2] + 1)
            elif f[0] == "len_notin" and f[1] == r:
                k = 0
                while k in f[2]:
                    k += 1
                lb = max(lb, k)
            elif f[0] == "cmp":
                op, a, b = f[1], f[2], f[3]
                if a == ("len", r) and b[0] == "c":
                    if op == ">":
                        lb = max(lb, b[1] + 1)
                    elif op in (">=", "=="):
                        lb = max(lb, b[1])
                    elif op == "!=" and b[1] == 0:
                        lb = max(lb, 1)
                if b == ("len", r) and a[0] == "c":
                    if op == "<":
                        lb = max(lb, a[1] + 1)
                    elif op in ("<=", "=="):
                        lb = max(lb, a[1])
        return lb

    def value_lower_bound(self, s, facts):
        """n with s >= n provable"""
        if s[0] == "c":
            return s[1]
        if s[0] == "len":
            return self.len_lower_bound(s[1], facts)
        if s[0] == "add":
            return self.value_lower_bound(s[1], facts) + s[2]
        lb = 0
        for f in facts:
            if f[0] == "cmp":
                op, a, b = f[1], f[2], f[3]
                if a == s and b[0] == "c":
                    if op == ">":
                        lb = max(lb, b[1] + 1)
                    elif op in (">=", "=="):
                        lb = max(lb, b[1])
                    elif op == "!=" and b[1] == 0:
                        lb = max(lb, 1)
                if b == s and a[0] == "c":
                    if op == "<":
                        lb = max(lb, a[1] + 1)
                    elif op in ("<=", "=="):
                        lb = max(lb, a[1])
        return lb

    def less_than(self, a, b, facts, strict=True):
        """is a < b (or a <= b) provable?"""
        if a[0] == "c" and b[0] == "c":
            return a[1] < b[1] if strict else a[1] <= b[1]
        if a[0] == "c":
            lb = self.value_lower_bound(b, facts)
            return lb > a[1] if strict else lb >= a[1]
        # a = x + k with x < b known ...
        for f in facts:
            if f[0] != "cmp":
                continue
            op, x, y = f[1], f[2], f[3]
            for (xx, yy, oo) in ((x, y, op), (y, x, FLIP.get(op, op))):
                if xx == a and yy == b:
                    if oo == "<" or (oo == "<=" and not strict):
                        return True
                # a = ('add', z, -k) with z <= b  => a < b for k>=1
                if a[0] == "add" and a[2] < 0 and xx == a[1] and yy == b and oo in ("<", "<="):
                    return True
                if b[0] == "add" and b[2] > 0 and xx == a and yy == b[1] and oo in ("<", "<="):
                    return True
        if a[0] == "add" and a[2] < 0 and a[1] == b and self.value_lower_bound(b, facts) >= -a[2]:
            return True   # len - k < len when len >= k >= 1
        return False


def range_start_operand(arg, A):
    if arg[0] not in ("C", "M"):
        return None
    for (bi, si, kind, st) in A.B.defs.get(arg[1][0], []):
        if kind == "assign" and st[2][0] == "Agg" and isinstance(st[2][1], list) and st[2][1][0] == "adt" and re.search(r"ops::range::Range(From)?$", st[2][1][1]) and st[2][2]:
            return st[2][2][0]
    return None


def min_with_len(A, op, r):
    """the operand is `x.min(len(r))` / `min(x, len(r))`: at most the length of the indexed collection"""
    if op is None or op[0] not in ("C", "M"):
        return False
    l = op[1][0]
    for _ in range(6):
        defs = A.B.defs.get(l, [])
        if len(defs) != 1:
            return False
        bi, si, kind, st = defs[0]
        if kind == "call":
            p = st["f"].get("o") or st["f"].get("p") or ""
            if re.search(r"(cmp::Ord::min|cmp::min)$", p) and len(st["args"]) == 2:
                return any(A.sym(a) == ("len", r) for a in st["args"])
            return False
        rv = st[2]
        if rv[0] == "Use" and rv[1][0] in ("C", "M") and len(rv[1][1]) == 1:
            l = rv[1][1][0]
            continue
        return False
    return False


def kind_has_end_operand(arg, A):
    """the operand that is the end of a `..end` / `start..end` range aggregate passed as index argument, else None"""
    if arg[0] not in ("C", "M"):
        return None
    for (bi, si, kind, st) in A.B.defs.get(arg[1][0], []):
        if kind == "assign" and st[2][0] == "Agg" and isinstance(st[2][1], list) and st[2][1][0] == "adt" and re.search(r"ops::range::Range(To)?$", st[2][1][1]) and st[2][2]:
            return st[2][2][-1]
    return None


def shape(x):
    if x[0] == "c":
        return str(x[1])
    if x[0] == "len":
        return "len"
    if x[0] == "add":
        return "%s%+d" % (shape(x[1]), x[2])
    if x[0] == "p":
        flds = re.findall(r'"\.", (\d+)', x[1])
        return "field" + ".".join(flds) if flds else "place"
    return "var"


def guard_sig(f):
    if f[0] == "call":
        return "call:%s=%s" % (re.sub(r"<.*?>", "", f[1]).split("::")[-1], f[2])
    if f[0] == "cmp":
        return "cmp:%s:%s:%s" % (f[1], shape(f[2]), shape(f[3]))
    if f[0] in ("len_eq", "len_gt"):
        return "%s:%s" % (f[0], f[2])
    if f[0] == "len_notin":
        return "len_notin:%s" % ",".join(map(str, f[2]))
    if f[0] == "variant":
        return "variant:%s" % f[2]
    if f[0] in ("disc_eq",):
        return "disc==%s" % f[2]
    if f[0] == "disc_notin":
        return "disc_notin:%s" % ",".join(map(str, f[2]))
    return f[0]


NEG = {"<": ">=", "<=": ">", ">": "<=", ">=": "<", "==": "!=", "!=": "=="}
FLIP = {"<": ">", "<=": ">=", ">": "<", ">=": "<=", "==": "==", "!=": "!="}


def collect_sites(F, name):
    b = F.bodies[name]
    out = []
    for bi, bl in enumerate(b["blocks"]):
        if bl.get("cleanup"):
            continue
        t = bl["t"]
        if t[0] == "assert":
            a = t[1]
            if a["kind"].startswith("Other"):
                continue
            out.append(Site(name, "assert", a["kind"], bi, a.get("line"), a.get("ops"), a.get("m")))
        elif t[0] == "call":
            c = t[1]
            p = c["f"].get("p") or ""
            if p in F.bodies:
                continue
            why = panic_api(p)
            if why:
                out.append(Site(name, "call", normalise_api(p), bi, c.get("line"), c.get("args"), c.get("m"), call=c))
    occ = defaultdict(int)
    for s in out:
        k = (s.kind, s.what)
        s.occ = occ[k]
        occ[k] += 1
    return out


COMMUTATIVE = {"Add", "Mul", "BitAnd", "BitOr", "BitXor", "Eq", "Ne"}


def _short_fn(p):
    p = normalise_api(p or "?")
    segs = [x for x in re.split(r"::", p) if x and x != "<>"]
    return "::".join(segs[-2:]) if len(segs) >= 2 else p


def expr_sig(A, op, depth=0):
    """canonical rendering of the expression that computes a MIR operand, following single definitions: independent of local names,
    statement order, references and let-hoisting; sensitive to the operations, callees, constants and fields involved."""
    if op[0] == "K":
        if len(op) > 3 and isinstance(op[3], (int, bool)):
            return str(int(op[3]))
        return "const"
    if op[0] not in ("C", "M"):
        return "?"
    return place_sig(A, op[1], depth)


def place_sig(A, pl, depth=0):
    base = local_sig(A, pl[0], depth)
    for pr in pl[1:]:
        if isinstance(pr, list):
            if pr[0] == ".":
                base = "%s.%s" % (base, pr[1])
            elif pr[0] in ("[]", "idx", "index"):
                base = "%s[]" % base
            elif pr[0] == "as":
                base = "%s as %s" % (base, pr[1] if len(pr) > 1 else "")
        elif pr == "*":
            pass
    return base


def local_sig(A, l, depth=0):
    B = A.B
    if depth > 7:
        return "..."
    if B.is_arg(l):
        return "arg%d" % l
    defs = B.defs.get(l, [])
    if len(defs) != 1:
        return "var"
    bi, si, kind, st = defs[0]
    if kind == "call":
        return "%s(%s)" % (_short_fn(st["f"].get("p")), ",".join(expr_sig(A, a, depth + 1) for a in st.get("args", [])))
    rv = st[2]
    k = rv[0]
    if k == "Use":
        return expr_sig(A, rv[1], depth)
    if k == "Ref" or k == "AddrOf" or k == "RawPtr":
        return place_sig(A, rv[2], depth)
    if k == "Cast":
        return expr_sig(A, rv[2], depth)
    if k == "Bin":
        o = rv[1].replace("WithOverflow", "").replace("Unchecked", "")
        a, b = expr_sig(A, rv[2], depth + 1), expr_sig(A, rv[3], depth + 1)
        if o in COMMUTATIVE and b < a:
            a, b = b, a
        return "%s(%s,%s)" % (o, a, b)
    if k == "Un":
        if rv[1] == "PtrMetadata":
            return "len(%s)" % expr_sig(A, rv[2], depth + 1)
        return "%s(%s)" % (rv[1], expr_sig(A, rv[2], depth + 1))
    if k == "Agg":
        nm = rv[1][1].split("::")[-1] if isinstance(rv[1], list) and len(rv[1]) > 1 and isinstance(rv[1][1], str) else str(rv[1][0] if isinstance(rv[1], list) else rv[1])
        return "%s{%s}" % (nm, ",".join(expr_sig(A, a, depth + 1) for a in rv[2]))
    if k == "Other":
        return re.sub(r"_\d+", "_", str(rv[1]))[:40]
    return k


def relevant_guards(A, s, precise=False):
    """guard signatures in force at the site that speak about the site's own operands: comparisons of an operand (index, length, arithmetic operand),
    length facts about the indexed collection, variant facts about an unwrapped receiver. An audit is written knowing these tests; it is void without them."""
    ops = [o for o in (s.ops or []) if isinstance(o, list)]
    syms, roots = [], []
    for o in ops:
        try:
            syms.append(A.sym(o))
            roots.append(A.operand_root(o))
            rg = A.range_operand(o)
            if rg:
                syms += [x for x in rg[:2] if x is not None]
        except Exception:
            pass

    def mentions(x):
        if x in syms:
            return True
        if isinstance(x, tuple) and x and x[0] == "add" and x[1] in syms:
            return True
        if isinstance(x, tuple) and x and x[0] == "len" and x[1] in roots:
            return True
        return any(isinstance(y, tuple) and y and y[0] == "add" and y[1] == x for y in syms)
    out = set()
    for f in A.facts_at(s.block, stale_ok=True):
        if f[0] == "cmp" and (mentions(f[2]) or mentions(f[3])) and not (f[2][0] == "c" and f[3][0] == "c"):
            out.add(guard_sig_precise(A, f) if precise else guard_sig(f))
        elif f[0] in ("len_eq", "len_gt", "len_notin", "variant") and f[1] in roots:
            out.add(guard_sig_precise(A, f) if precise else guard_sig(f))
    return sorted(out)


def sym_sig(A, x):
    """canonical rendering of a symbolic value of the fact language (which variable is compared, not only its shape)"""
    if not isinstance(x, tuple) or not x:
        return "?"
    if x[0] == "c":
        return str(x[1])
    if x[0] in ("l", "count"):
        return local_sig(A, x[1]) if isinstance(x[1], int) else "var"
    if x[0] == "p":
        try:
            pl = json.loads(x[1])
            if isinstance(pl, list):
                return place_sig(A, pl)
        except ValueError:
            pass
        return "place"
    if x[0] == "len":
        return "len(%s)" % root_sig(A, x[1])
    if x[0] == "add":
        return "%s%+d" % (sym_sig(A, x[1]), x[2])
    return x[0]


def root_sig(A, r):
    if isinstance(r, tuple):
        if r and r[0] == "k":
            return "const"
        return "%s.%s" % (root_sig(A, r[0]), ".".join(map(str, r[1]))) if len(r) == 2 and isinstance(r[1], tuple) else "root"
    return local_sig(A, r) if isinstance(r, int) else "root"


def guard_sig_precise(A, f):
    if f[0] == "cmp":
        a, b, op = sym_sig(A, f[2]), sym_sig(A, f[3]), f[1]
        if op in (">", ">="):          # one orientation
            a, b, op = b, a, FLIP[op]
        if op in ("==", "!=") and b < a:
            a, b = b, a
        return "cmp:%s:%s:%s" % (op, a, b)
    if f[0] in ("len_eq", "len_gt"):
        return "%s:%s:%s" % (f[0], root_sig(A, f[1]), f[2])
    if f[0] == "len_notin":
        return "len_notin:%s:%s" % (root_sig(A, f[1]), ",".join(map(str, f[2])))
    if f[0] == "variant":
        return "variant:%s:%s" % (root_sig(A, f[1]), f[2])
    return guard_sig(f)


def site_opsig(A, s):
    """operand signature of a panic-capable site (the index/range/arithmetic operands, the receiver of unwrap, ...)"""
    ops = s.ops or []
    if s.kind == "call" and re.search(r"::(sort_by|sort_unstable_by|sort_by_key|sort_unstable_by_key|sort_by_cached_key|select_nth_unstable_by|select_nth_unstable_by_key)$", s.what or ""):
        # what matters at a sort is the comparison, not how the sorted vector was obtained (the comparator's shape is judged by the rule named in the audit)
        return ["<comparator>"]
    try:
        return [expr_sig(A, o) for o in ops if isinstance(o, list)]
    except Exception as e:      # never let the signature hide a site
        return ["<sig failed: %s>" % e]


def normalise_api(p):
    p = re.sub(r"<[^<>]*(<[^<>]*(<[^<>]*>[^<>]*)*>[^<>]*)*>", "<>", p)
    return p


# ======================================================================================================
# discharge rules
# ======================================================================================================
def discharge(F, A, s):
    """returns (rule, guard text) or None"""
    facts = A.facts_at(s.block)
    if s.kind == "assert":
        k = s.what
        if k.startswith("Overflow:") and len(s.ops) == 2:
            a, b = A.sym(s.ops[0]), A.sym(s.ops[1])
            if a[0] == "c" and b[0] == "c":
                ty = A.B.types[s.ops[0][2]] if s.ops[0][0] == "K" else ""
                rng = int_range(ty)
                op = k.split(":")[1]
                try:
                    v = {"Add": a[1] + b[1], "Sub": a[1] - b[1], "Mul": a[1] * b[1]}.get(op)
                except Exception:
                    v = None
                if v is not None and rng and rng[0] <= v <= rng[1]:
                    return ("const-fold", "both operands are constants (%d %s %d fits %s)" % (a[1], op, b[1], ty))
        if k.startswith("Overflow") and k not in ("Overflow:Div", "Overflow:Rem", "Overflow:Shr", "Overflow:Shl"):
            iv = A.intervals().check_overflow(s)
            if iv:
                return ("interval", iv)
        if k == "BoundsCheck":
            ln, ix = A.sym(s.ops[0]), A.sym(s.ops[1])
            if ln[0] == "c" and ix[0] == "c" and ix[1] < ln[1]:
                return ("const-index", "constant index %d into an array of %d" % (ix[1], ln[1]))
            if ln[0] == "len":
                if ix[0] == "c":
                    lb = A.len_lower_bound(ln[1], facts)
                    if lb > ix[1]:
                        return ("len-guard", "index %d under a dominating test establishing len >= %d" % (ix[1], lb))
                elif A.less_than(ix, ln, facts):
                    return ("index-guard", "dominating comparison establishes index < len")
            if ln[0] == "c" and A.less_than(ix, ln, facts):
                return ("index-guard", "dominating comparison establishes index < %d" % ln[1])
            if ln[0] == "len":
                src = A.enumerate_source(s.ops[1])
                if src is not None and (src == ln[1] or A.equal_lengths(src, ln[1], facts)):
                    return ("enumerate-index", "the index counts the items of a collection whose length was tested equal to this one's")
            return None
        if k in ("DivisionByZero", "RemainderByZero"):
            # the assert's operand is the dividend; the divisor is the operand compared with zero in the condition
            d = ("?",)
            blk = A.blocks[s.block]
            t = blk["t"][1]
            cl = t["cond"][1][0] if t["cond"][0] in ("C", "M") else None
            for (bi, si, kind, st) in A.B.defs.get(cl, []) if cl is not None else []:
                if kind == "assign" and st[2][0] == "Bin" and st[2][1] == "Eq":
                    d = A.sym(st[2][2])
                    z = A.sym(st[2][3])
                    if not (z[0] == "c" and z[1] == 0):
                        d = ("?",)
            if d[0] == "c" and d[1] != 0:
                return ("const-divisor", "divisor is the non-zero constant %d" % d[1])
            if A.value_lower_bound(d, facts) >= 1:
                return ("divisor-guard", "dominating test establishes divisor >= 1")
            return None
        if k.startswith("Overflow:Div") or k.startswith("Overflow:Rem"):
            # MIN / -1: only signed, divisor constant != -1 suffices
            d = A.sym(s.ops[1])
            if d[0] == "c" and d[1] != -1:
                return ("const-divisor", "divisor is the constant %d (not -1)" % d[1])
            return None
        if k == "Overflow:Add":
            a, b = A.sym(s.ops[0]), A.sym(s.ops[1])
            for x, y, xo in ((a, b, s.ops[0]), (b, a, s.ops[1])):
                if y[0] == "c" and 0 <= y[1] <= 4096 and closure_param_enumerate_index(F, A, xo):
                    return ("enumerate-index", "the operand is the index an `enumerate()` adaptor hands to this closure (at most isize::MAX for an in-memory sequence, and below usize::MAX "
                                               "for any iterator, or enumerate() itself would have overflowed): plus %d cannot overflow usize" % y[1])
            if all(bounded_by_allocation(v) or A.count_source(o) is not None for v, o in ((a, s.ops[0]), (b, s.ops[1]))):
                return ("length-arith", "the sum of two collection lengths / element counts (each at most isize::MAX) cannot overflow usize")
            for x, y, xo in ((a, b, s.ops[0]), (b, a, s.ops[1])):
                if y[0] == "c" and 0 <= y[1] <= 4096 and bounded_by_allocation(x):
                    return ("length-arith", "a collection length / element index (at most isize::MAX) plus %d cannot overflow usize" % y[1])
                if y[0] == "c" and 0 <= y[1] <= 4096 and xo[0] in ("C", "M") and len(xo[1]) == 1 and A.is_local_counter(xo[1][0]):
                    return ("local-counter", "a 64-bit local counter that starts at a constant and only ever grows by small constants cannot reach the type's maximum in a feasible run")
            return None
        if k == "Overflow:Sub":
            a, b = A.sym(s.ops[0]), A.sym(s.ops[1])
            if b[0] == "c" and A.value_lower_bound(a, facts) >= b[1]:
                return ("sub-guard", "dominating test establishes minuend >= %d" % b[1])
            if A.less_than(b, a, facts, strict=False):
                return ("sub-guard", "dominating comparison establishes subtrahend <= minuend")
            return None
        if k in ("Overflow:Shr", "Overflow:Shl"):
            b = A.sym(s.ops[1])
            ty = A.B.local_ty(s.ops[0][1][0]) if s.ops[0][0] in ("C", "M") else ""
            bits = {"u8": 8, "i8": 8, "u16": 16, "i16": 16, "u32": 32, "i32": 32, "u64": 64, "i64": 64, "usize": 64, "isize": 64, "u128": 128, "i128": 128}.get(ty)
            if b[0] == "c" and bits and 0 <= b[1] < bits:
                return ("const-shift", "shift by the constant %d < %d bits" % (b[1], bits))
            return None
        return None
    if s.kind == "call":
        p = s.what
        args = s.ops or []
        if re.search(r"Option::<>::(unwrap|expect)$", p) or re.search(r"Result::<>::(unwrap|expect)$", p):
            want = "Some" if "Option" in p else "Ok"
            r = A.operand_root(args[0]) if args else None
            for f in facts:
                if f[0] == "variant" and f[1] == r and f[2] == want:
                    return ("variant-guard", "dominated by a test that the value is %s" % want)
            # value produced by a call that is Some/Ok on all paths (summary of a local callee)
            if want == "Some" and args and last_after_push(A, args[0]):
                return ("last-after-push", "the value is `last()` / `last_mut()` of a vector that received an element by `push` on the straight-line path just before: it is Some")
            src = call_source(A, args[0]) if args else None
            if src and always_variant(F, src, want):
                return ("total-callee", "%s returns %s on every path" % (src, want))
            return None
        full = ((s.call or {}).get("f") or {}).get("p") or ""
        if re.search(r"^<&?(u|i)(\d+|size) as core::ops::arith::(Div|Rem)(<.*>)?>::(div|rem)$", full) and len(args) == 2:
            # integer division written as a call (`x.rem(60)`, `&a / b`): a constant divisor other than 0 and -1 can neither divide by zero nor overflow (MIN / -1)
            d = A.sym(args[1])
            if d[0] == "c" and d[1] not in (0, -1):
                return ("const-divisor", "divisor is the constant %d (neither 0 nor -1)" % d[1])
            return None
        if re.search(r"Vec::<>::(remove|swap_remove)$", p) and len(args) >= 2:
            r = A.operand_root(args[0])
            ix = A.sym(args[1])
            if ix[0] == "c":
                lb = A.len_lower_bound(r, facts)
                if lb > ix[1]:
                    return ("len-guard", "removal at index %d under a dominating test establishing len >= %d" % (ix[1], lb))
            elif ix[0] != "?" and A.less_than(ix, ("len", r), facts):
                return ("index-guard", "dominating comparison establishes index < len")
            return None
        if p.endswith("Vec::<>::insert") and len(args) >= 2:
            ix = A.sym(args[1])
            if ix == ("c", 0):
                return ("insert-front", "Vec::insert at index 0 is always within 0..=len")
            return None
        if p.endswith("::is_digit") or p.endswith("::to_digit") or p.endswith("from_digit"):
            rx = A.sym(args[-1]) if args else ("?",)
            if rx[0] == "c" and 2 <= rx[1] <= 36:
                return ("const-radix", "radix is the constant %d" % rx[1])
            return None
        if p.endswith("::index") or p.endswith("::index_mut"):
            if len(args) == 2:
                r = A.operand_root(args[0])
                rg = A.range_operand(args[1])
                if rg is not None:
                    lo, hi, kind = rg
                    ln = ("len", r)
                    ok_lo = lo is None or lo == ("c", 0) or A.less_than(lo, ln, facts, strict=False) or (hi is not None and A.less_than(lo, hi, facts, strict=False) and A.less_than(hi, ln, facts, strict=False)) \
                        or min_with_len(A, range_start_operand(args[1], A), r)
                    ok_hi = hi is None or A.less_than(hi, ln, facts, strict=False) or (kind_has_end_operand(args[1], A) is not None and A.count_source(kind_has_end_operand(args[1], A)) == r)
                    ok_order = lo is None or hi is None or lo == ("c", 0) or A.less_than(lo, hi, facts, strict=False)
                    if ok_lo and ok_hi and ok_order and "str" not in A.B.local_ty(args[0][1][0]) and "String" not in A.B.local_ty(args[0][1][0]):
                        return ("range-guard", "slice range %s..%s under dominating tests establishing start <= end <= len" % (shape(lo) if lo else "", shape(hi) if hi else ""))
                    return None
                ix = A.sym(args[1])
                ln = ("len", r)
                if ix[0] == "c":
                    lb = A.len_lower_bound(r, facts)
                    if lb > ix[1]:
                        return ("len-guard", "index %d under a dominating test establishing len >= %d" % (ix[1], lb))
                elif ix[0] != "?" and A.less_than(ix, ln, facts):
                    return ("index-guard", "dominating comparison establishes index < len")
                src = A.enumerate_source(args[1])
                if src is not None and (src == r or A.equal_lengths(src, r, facts)):
                    return ("enumerate-index", "the index counts the items of a collection whose length was tested equal to this one's")
            return None
    return None


_RET_IV = {}


def return_interval(F, name):
    """interval of the integer return value of a local function, joined over its return blocks; None when unknown (recursion, non-integer)"""
    if name in _RET_IV:
        return _RET_IV[name]
    _RET_IV[name] = None          # recursion guard
    try:
        A = Analyzer(F, name)
        if int_range(A.B.local_ty(0)) is None:
            return None
        iv = A.intervals()
        out = None
        for bi, bl in enumerate(A.blocks):
            if bl["t"][0] != "ret" or bi not in iv.entry:
                continue
            st = iv.transfer(iv.entry[bi], {"s": bl["s"], "t": ["goto", 0]})
            v = st.get(0) or int_range(A.B.local_ty(0))
            out = v if out is None else (min(out[0], v[0]), max(out[1], v[1]))
        _RET_IV[name] = out
    except Exception:
        _RET_IV[name] = None
    return _RET_IV[name]


def int_range(ty):
    m = re.fullmatch(r"(u|i)(8|16|32|64|128|size)", ty or "")
    if not m:
        return None
    bits = 64 if m.group(2) == "size" else int(m.group(2))
    if m.group(1) == "u":
        return (0, 2 ** bits - 1)
    return (-(2 ** (bits - 1)), 2 ** (bits - 1) - 1)


def bounded_by_allocation(x):
    """is the symbolic value a collection length, an element index or a char count (hence <= isize::MAX)?"""
    if x[0] in ("len", "count"):
        return True
    if x[0] == "add" and x[2] <= 4096:
        return bounded_by_allocation(x[1])
    return False


_ENUM_CHAIN = re.compile(r"^(core::iter::adapters::(filter::Filter|rev::Rev|skip::Skip|take::Take|peekable::Peekable|inspect::Inspect|take_while::TakeWhile|"
                         r"skip_while::SkipWhile|fuse::Fuse)<)*core::iter::adapters::enumerate::Enumerate<")
_ITEM_CLOSURE_ADAPTORS = re.compile(r"Iterator::(map|filter|for_each|filter_map|any|all|find|find_map|position|flat_map|take_while|skip_while|inspect|map_while)$")


def closure_param_enumerate_index(F, A, op):
    """is the operand the first component of the item an iterator chain over `enumerate()` hands to this closure?  Decided from types and the creation site: the
    analysed body is a closure, the operand is (a copy of) `.0` of its item parameter, and in the creating function the closure is an argument of an item-wise
    adaptor (map / filter / for_each / any / ...) whose receiver has a type of the form [Filter|Rev|Skip|Take|...]*<Enumerate<..>> - adaptors that hand items on unchanged."""
    if "{closure#" not in A.name or op[0] not in ("C", "M"):
        return False
    pl = op[1]
    for _ in range(6):
        if len(pl) != 1:
            break
        defs = A.B.defs.get(pl[0], [])
        if len(defs) != 1 or defs[0][2] != "assign" or defs[0][3][2][0] != "Use" or defs[0][3][2][1][0] not in ("C", "M"):
            return False
        pl = defs[0][3][2][1][1]
    # `_2.0` (item by value) or `(*_2).0` (item by reference)
    if not (pl[0] == 2 and pl[-1] == [".", 0] and all(x == "*" for x in pl[1:-1])):
        return False
    parent = A.name.rsplit("::{closure#", 1)[0]
    pb = F.bodies.get(parent)
    if pb is None:
        return False
    PB = mirutil.Body(F, pb)
    holders = set()
    for bl in pb["blocks"]:
        for st in bl["s"]:
            if st[0] == "A" and st[2][0] == "Agg" and isinstance(st[2][1], list) and st[2][1][0] == "closure" and st[2][1][1] == A.name and len(st[1]) == 1:
                holders.add(st[1][0])
    if not holders:
        return False
    for bl in pb["blocks"]:
        t = bl["t"]
        if t[0] != "call":
            continue
        c = t[1]
        p = c["f"].get("o") or c["f"].get("p") or ""
        if not _ITEM_CLOSURE_ADAPTORS.search(p) or len(c.get("args", [])) < 2:
            continue
        if not any(a[0] in ("C", "M") and len(a[1]) == 1 and a[1][0] in holders for a in c["args"][1:]):
            continue
        r = c["args"][0]
        if r[0] in ("C", "M") and len(r[1]) == 1 and _ENUM_CHAIN.match(PB.local_ty(r[1][0]).lstrip("&").replace("mut ", "")):
            return True
    return False


def vec_root(A, op):
    """root of a vector operand, through `deref` / `deref_mut` views as well"""
    if op[0] not in ("C", "M"):
        return None
    r = A.place_root(op[1]) if len(op[1]) > 1 else A.root(op[1][0])
    for _ in range(4):
        if not isinstance(r, int):
            return r
        defs = A.B.defs.get(r, [])
        if len(defs) == 1 and defs[0][2] == "call" and re.search(r"::(deref_mut|as_mut_slice|as_mut)$", defs[0][3]["f"].get("p") or "") and defs[0][3]["args"] and defs[0][3]["args"][0][0] in ("C", "M"):
            a = defs[0][3]["args"][0]
            r = A.place_root(a[1]) if len(a[1]) > 1 else A.root(a[1][0])
        else:
            return r
    return r


def last_after_push(A, op):
    """`v.push(x); v.last_mut().unwrap()`: the unwrapped operand is the direct result of last() / last_mut() on a vector, and walking back from that call over unique
    predecessors the first call that touches the vector is Vec::push on it"""
    if op[0] not in ("C", "M") or len(op[1]) != 1:
        return False
    defs = A.B.defs.get(op[1][0], [])
    if len(defs) != 1 or defs[0][2] != "call":
        return False
    c = defs[0][3]
    if not re.search(r"(slice::<impl \[T\]>|Vec::<.*>)::(last|last_mut)$", c["f"].get("p") or "") or len(c.get("args", [])) != 1:
        return False
    r = vec_root(A, c["args"][0])
    if r is None:
        return False
    cur = defs[0][0]
    preds = A.B.preds()
    for _ in range(10):
        ps = [x for x in preds.get(cur, []) if not A.blocks[x].get("cleanup") and cur in mirutil.normal_successors(A.blocks[x]["t"])]
        if len(ps) != 1:
            return False
        cur = ps[0]
        t = A.blocks[cur]["t"]
        if t[0] == "call":
            pth = t[1]["f"].get("p") or ""
            roots = [vec_root(A, a) for a in t[1].get("args", [])]
            if re.search(r"Vec::<.*>::push$", pth) and roots and roots[0] == r:
                return True
            if re.search(r"::(deref_mut|deref|as_mut_slice)$", pth):
                continue
            if r in roots:
                return False
        elif t[0] not in ("goto", "drop", "assert", "switch"):
            return False
    return False


def call_source(A, op):
    """callee name if the operand is (a copy of) the direct result of a call"""
    if op[0] not in ("C", "M") or len(op[1]) != 1:
        return None
    l = op[1][0]
    for _ in range(6):
        defs = A.B.defs.get(l, [])
        if len(defs) != 1:
            return None
        bi, si, kind, st = defs[0]
        if kind == "call":
            return st["f"].get("p")
        rv = st[2]
        if rv[0] == "Use" and rv[1][0] in ("C", "M") and len(rv[1][1]) == 1:
            l = rv[1][1][0]
            continue
        return None
    return None


_always_cache = {}


def always_variant(F, fn, want, depth=0):
    """does the local function `fn` return Option::Some / Result::Ok on every normal path? (bottom-up summary)"""
    key = (fn, want)
    if key in _always_cache:
        return _always_cache[key]
    _always_cache[key] = False
    b = F.bodies.get(fn)
    if b is None or depth > 4:
        return False
    B = mirutil.Body(F, b)
    ok = True
    found = False
    for (bi, si, kind, st) in B.defs.get(0, []):
        found = True
        if kind == "call":
            p = st["f"].get("p")
            if not (p in F.bodies and always_variant(F, p, want, depth + 1)):
                ok = False
        else:
            rv = st[2]
            if rv[0] == "Agg" and isinstance(rv[1], list) and rv[1][0] == "adt" and rv[1][3] == want:
                continue
            ok = False
    res = ok and found
    _always_cache[key] = res
    return res


# ======================================================================================================
# forward interval analysis over integer locals (discharges widening arithmetic such as (x as i128) * CONST)
# ======================================================================================================
class Intervals:
    def __init__(self, A):
        self.A = A
        self.B = A.B
        self.b = A.b
        self.types = A.B.types
        self.entry = {}
        self.solve()

    def ty_of_local(self, l):
        return self.types[self.b["locals"][l]]

    def rng(self, ty):
        return int_range(ty)

    def op_interval(self, op, st):
        if op[0] == "K":
            if len(op) > 3 and isinstance(op[3], int):
                return (op[3], op[3])
            if len(op) > 3 and isinstance(op[3], str) and op[3].lstrip("-").isdigit():
                return (int(op[3]), int(op[3]))
            return self.rng(self.types[op[2]]) if len(op) > 2 else None
        if op[0] in ("C", "M"):
            pl = op[1]
            if len(pl) == 1:
                v = st.get(pl[0])
                return v if v is not None else self.rng(self.ty_of_local(pl[0]))
            if len(pl) == 2 and isinstance(pl[1], list) and pl[1][0] == ".":
                v = st.get((pl[0], pl[1][1]))
                if v is not None:
                    return v
            return None
        return None

    def place_ty(self, op):
        if op[0] == "K":
            return self.types[op[2]] if len(op) > 2 else ""
        if op[0] in ("C", "M") and len(op[1]) == 1:
            return self.ty_of_local(op[1][0])
        return ""

    @staticmethod
    def arith(opn, a, b):
        if a is None or b is None:
            return None
        if opn == "Add":
            return (a[0] + b[0], a[1] + b[1])
        if opn == "Sub":
            return (a[0] - b[1], a[1] - b[0])
        if opn == "Mul":
            c = [a[0] * b[0], a[0] * b[1], a[1] * b[0], a[1] * b[1]]
            return (min(c), max(c))
        return None

    def transfer(self, st_in, bl):
        st = dict(st_in)
        for s in bl["s"]:
            if s[0] != "A":
                continue
            dst, rv = s[1], s[2]
            if len(dst) != 1:
                continue
            l = dst[0]
            ty = self.ty_of_local(l)
            k = rv[0]
            val = None
            tup = None
            if k == "Use":
                val = self.op_interval(rv[1], st)
            elif k == "Cast" and "IntToInt" in rv[1]:
                src = self.op_interval(rv[2], st)
                r = self.rng(self.types[rv[3]])
                if src is not None and r is not None and r[0] <= src[0] and src[1] <= r[1]:
                    val = src
                else:
                    val = r
            elif k == "Bin":
                opn = rv[1]
                a, b2 = self.op_interval(rv[2], st), self.op_interval(rv[3], st)
                base = opn.replace("WithOverflow", "")
                if base in ("Add", "Sub", "Mul"):
                    res = self.arith(base, a, b2)
                    if opn.endswith("WithOverflow"):
                        r = self.rng(self.place_ty(rv[2]))
                        if res is not None and r is not None:
                            tup = (max(res[0], r[0]), min(res[1], r[1])) if res[0] <= r[1] and res[1] >= r[0] else r
                        else:
                            tup = r
                    else:
                        r = self.rng(ty)
                        val = res if (res is not None and r is not None and r[0] <= res[0] and res[1] <= r[1]) else r
                elif base == "Rem" and b2 is not None and b2[0] == b2[1] and b2[0] > 0:
                    c = b2[0]
                    if a is not None and a[0] >= 0:
                        val = (0, min(c - 1, a[1]))
                    else:
                        val = (-(c - 1), c - 1)
                elif base == "Div" and b2 is not None and b2[0] == b2[1] and b2[0] > 0 and a is not None:
                    c = b2[0]
                    q = [int(a[0] / c), int(a[1] / c)]
                    val = (min(q), max(q))
                elif base == "BitAnd" and b2 is not None and b2[0] == b2[1] and b2[0] >= 0:
                    val = (0, b2[0])
                elif base == "Shr" and b2 is not None and b2[0] == b2[1] and a is not None and a[0] >= 0 and b2[0] >= 0:
                    val = (a[0] >> b2[0], a[1] >> b2[0])
            elif k == "Un" and rv[1] == "Neg":
                a = self.op_interval(rv[2], st)
                if a is not None:
                    val = (-a[1], -a[0])
                    r = self.rng(ty)
                    if r and not (r[0] <= val[0] and val[1] <= r[1]):
                        val = r
            if tup is not None:
                st[(l, 0)] = tup
                st.pop(l, None)
                continue
            r = self.rng(ty)
            if r is None:
                continue
            if val is None:
                val = r
            st[l] = val
        t = bl["t"]
        if t[0] == "call" and t[1].get("dest") and len(t[1]["dest"]) == 1:
            l = t[1]["dest"][0]
            r = self.rng(self.ty_of_local(l))
            if r is not None:
                p = t[1]["f"].get("p") or ""
                if re.search(r"::(len|count|chars_count)$", p):
                    r = (0, 2 ** 63 - 1)
                elif re.search(r"num::<impl (i\d+|isize)>::(abs|unsigned_abs)$", p):
                    r = (0, r[1])
                elif t[1]["f"].get("local") and p in self.A.F.bodies:
                    # a function of the analysed crates: the interval of its return value over all its paths (parameters unconstrained)
                    rr = return_interval(self.A.F, p)
                    if rr is not None and r[0] <= rr[0] and rr[1] <= r[1]:
                        r = rr
                st[l] = r
        return st

    def refine(self, st, bi, s):
        """the state on the edge bi -> s of a switch: comparisons of an integer local with a constant that the edge establishes narrow its interval"""
        facts = self.A.edge_facts().get((bi, s))
        if not facts:
            return st
        # only edges that are the sole way into s may narrow (otherwise the join below would have to know the edge)
        out = None
        for f in facts:
            if f[0] != "cmp":
                continue
            op, a, b2 = f[1], f[2], f[3]
            if a[0] == "c" and b2[0] == "l":
                a, b2, op = b2, a, FLIP.get(op, op)
            if not (a[0] == "l" and b2[0] == "c" and isinstance(b2[1], int)):
                continue
            l, k = a[1], b2[1]
            # the test reads a copy of the local: the local itself must not be written in the testing block (conservative)
            bl = self.b["blocks"][bi]
            if any(x[0] == "A" and x[1][0] == l for x in bl["s"]):
                continue
            cur = (out or st).get(l) or self.rng(self.ty_of_local(l))
            if cur is None:
                continue
            lo, hi = cur
            if op == "<":
                hi = min(hi, k - 1)
            elif op == "<=":
                hi = min(hi, k)
            elif op == ">":
                lo = max(lo, k + 1)
            elif op == ">=":
                lo = max(lo, k)
            elif op == "==":
                lo, hi = max(lo, k), min(hi, k)
            elif op == "!=":
                if lo == k:
                    lo += 1
                if hi == k:
                    hi -= 1
            if lo > hi:
                continue      # infeasible edge: keep the unrefined state (sound)
            if out is None:
                out = dict(st)
            out[l] = (lo, hi)
        return out if out is not None else st

    def solve(self):
        blocks = self.b["blocks"]
        n = len(blocks)
        init = {}
        for l in range(1, self.b["argc"] + 1):
            r = self.rng(self.ty_of_local(l))
            if r is not None:
                init[l] = r
        self.entry = {0: init}
        visits = defaultdict(int)
        work = [0]
        while work:
            bi = work.pop()
            visits[bi] += 1
            out0 = self.transfer(self.entry[bi], blocks[bi])
            for s in mirutil.normal_successors(blocks[bi]["t"]):
                if s >= n:
                    continue
                out = self.refine(out0, bi, s) if blocks[bi]["t"][0] == "switch" else out0
                old = self.entry.get(s)
                if old is None:
                    self.entry[s] = dict(out)
                    work.append(s)
                    continue
                new = {}
                changed = False
                for k in set(old) | set(out):
                    a, b2 = old.get(k), out.get(k)
                    if a is None or b2 is None:
                        # unknown on one path: drop (falls back to the type range on lookup)
                        if k in old:
                            changed = True
                        continue
                    j = (min(a[0], b2[0]), max(a[1], b2[1]))
                    if visits[s] > 4 and j != a:
                        l = k if isinstance(k, int) else k[0]
                        r = self.rng(self.ty_of_local(l)) if isinstance(k, int) else None
                        j = r if r is not None else j
                        if r is None:
                            continue
                    new[k] = j
                    if j != a:
                        changed = True
                if changed or set(new) != set(old):
                    self.entry[s] = new
                    work.append(s)

    def check_overflow(self, site):
        """is the exact result of the asserted operation inside the operand type's range, given the intervals at the site?"""
        bl = self.b["blocks"][site.block]
        st = self.entry.get(site.block)
        if st is None:
            return None
        # replay the block's statements up to the terminator
        st = self.transfer(st, {"s": bl["s"], "t": ["goto", 0]})
        k = site.what
        if k.startswith("Overflow:") and len(site.ops) == 2:
            base = k.split(":")[1]
            a, b2 = self.op_interval(site.ops[0], st), self.op_interval(site.ops[1], st)
            res = self.arith(base, a, b2)
            r = self.rng(self.place_ty(site.ops[0]))
            if res is not None and r is not None and r[0] <= res[0] and res[1] <= r[1]:
                return "operands within [%d, %d] and [%d, %d]: the exact result fits %s" % (a[0], a[1], b2[0], b2[1], self.place_ty(site.ops[0]))
        if k == "OverflowNeg" and len(site.ops) == 1:
            a = self.op_interval(site.ops[0], st)
            r = self.rng(self.place_ty(site.ops[0]))
            if a is not None and r is not None and a[0] > r[0]:
                return "operand within [%d, %d] excludes the type's minimum" % a
        return None
