#!/usr/bin/env python3
"""Report collector: rule instances, discharges, violations, known findings, evidence writer."""
import json
import os
import time

VERIF = os.path.dirname(os.path.dirname(os.path.abspath(__file__)))


class Report:
    def __init__(self, pid, tier, seed=0, level="other"):
        self.pid = pid
        self.tier = tier
        self.seed = seed
        self.level = level
        self.t0 = time.time()
        self.rules = {}          # rid -> dict(desc, instances, discharged, audited, violations, samples)
        self.violations = []     # dict(rule,key,msg,where)
        self.notes = []
        self.assumptions = []
        self.analysed = {}
        self.trusted_base = []
        self.explanation = ""

    def rule(self, rid, desc):
        self.rules.setdefault(rid, dict(desc=desc, instances=0, discharged=0, audited=0, violations=0, known=0, samples=[]))
        return rid

    def ok(self, rid, key, detail=None, how="discharged"):
        r = self.rules[rid]
        r["instances"] += 1
        if how == "audited":
            r["audited"] += 1
        else:
            r["discharged"] += 1
        if len(r["samples"]) < 4:
            s = {"instance": key, "verdict": how}
            if detail is not None:
                s["detail"] = detail
            r["samples"].append(s)

    def violation(self, rid, key, msg, where=None):
        r = self.rules[rid]
        r["instances"] += 1
        self.violations.append(dict(rule=rid, key=key, msg=msg, where=where))

    def undecided(self, rid, key, why):
        """the construct was found but has a form the rule cannot fold: recorded and printed, not a violation (a violation needs positive evidence)"""
        r = self.rules[rid]
        r["instances"] += 1
        r["undecided"] = r.get("undecided", 0) + 1
        self.notes.append("UNDECIDED %s %s: %s" % (rid, key, why))
        print("UNDECIDED property=%s rule=%s instance=%s: %s" % (self.pid, rid, key, why))

    def floor(self, rid, what, count, floor):
        """fail closed when a rule matched far fewer sites than were confirmed by hand on the pinned tree.  `floor` is the number counted on the pinned tree;
        the check trips below 60 % of it (never below 1; floors of 1 and 2 are exact): consolidating refactorings - a generic helper instead of ten wrappers, a
        table lookup instead of seventeen arms - legitimately reduce such counts, while a rule that went blind finds none or a handful."""
        counted = floor
        if floor > 2:
            floor = max(1, int(floor * 0.6))
        if count < floor:
            self.violations.append(dict(rule=rid, key="coverage:%s" % what,
                                        msg="coverage floor not reached for %s: found %d, counted on the pinned tree %d, floor %d (anchor moved or rule went blind)" % (what, count, counted, floor),
                                        where=None))
            self.rules[rid]["instances"] += 1

    def missing_anchor(self, rid, what):
        self.violations.append(dict(rule=rid, key="anchor:%s" % what, msg="anchor not found in the fact base: %s" % what, where=None))
        self.rules[rid]["instances"] += 1

    def note(self, s):
        self.notes.append(s)

    # ------------------------------------------------------------------
    def finish(self):
        kf_path = os.path.join(VERIF, "known_findings.json")
        known = []
        if os.path.exists(kf_path):
            known = [k for k in json.load(open(kf_path)).get("findings", []) if k["property"] == self.pid]
        kmap = {(k["rule"], k["key"]): k for k in known}
        real = []
        printed = set()
        lines = []
        for v in self.violations:
            k = kmap.get((v["rule"], v["key"]))
            if k is not None:
                self.rules[v["rule"]]["known"] += 1
                if (v["rule"], v["key"]) not in printed:
                    printed.add((v["rule"], v["key"]))
                    lines.append("KNOWN-FINDING: property=%s rule=%s %s" % (self.pid, v["rule"], k["what_fails"]))
            else:
                self.rules[v["rule"]]["violations"] += 1
                real.append(v)
        wall = time.time() - self.t0
        obligations = sum(r["instances"] for r in self.rules.values())
        discharged = sum(r["discharged"] + r["audited"] for r in self.rules.values())
        samples = []
        for rid, r in self.rules.items():
            for s in r["samples"][:3]:
                samples.append(dict(rule=rid, **s))
        cov = {
            "explanation": self.explanation,
            "obligations": obligations,
            "discharged": discharged,
            "audited": sum(r["audited"] for r in self.rules.values()),
            "known_findings_still_present": sum(r["known"] for r in self.rules.values()),
            "rules": {rid: {k: v for k, v in r.items() if k != "samples"} for rid, r in self.rules.items()},
            "samples": samples[:40],
            "analysed": self.analysed,
            "notes": self.notes[:60],
            "exhaustive": True,
        }
        if self.level == "proof":
            aud = sum(r["audited"] for r in self.rules.values())
            if aud:
                self.trusted_base.append("%d obligations discharged by an audited table entry (read and justified by hand, listed in the rule's source), not by the checker" % aud)
            cov["checker_cmd"] = "python3 /verif/engine/check.py %s %s" % (self.pid, self.tier)
            cov["trusted_base"] = self.trusted_base
        if self.level == "translation_validation":
            cov["programs"] = self.analysed.get("programs", obligations)
            cov["disagreements_checked"] = self.analysed.get("disagreements_checked", len(real))
        ev = {
            "property_id": self.pid,
            "tier": self.tier,
            "seed": self.seed,
            "level": self.level,
            "coverage": cov,
            "assumptions": self.assumptions,
            "wall_s": round(wall, 2),
            "violations": len(real),
        }
        # VERIF_OUT redirects evidence and reports (used by selftest/run.py so that a run against a seeded
        # variant does not overwrite the evidence of the real tree)
        out = os.environ.get("VERIF_OUT")
        edir = os.path.join(out, "evidence") if out else os.path.join(VERIF, "evidence")
        os.makedirs(edir, exist_ok=True)
        with open(os.path.join(edir, "%s.json" % self.pid), "w") as fh:
            json.dump(ev, fh, indent=1)
        rdir = os.path.join(out, "reports") if out else os.path.join(VERIF, ".cache", "reports")
        os.makedirs(rdir, exist_ok=True)
        rpath = os.path.join(rdir, "%s-%s.json" % (self.pid, self.tier))
        with open(rpath, "w") as fh:
            json.dump({"property": self.pid, "tier": self.tier, "violations": real, "known": [v for v in self.violations if v not in real],
                       "rules": cov["rules"]}, fh, indent=1)
        for ln in lines:
            print(ln)
        for rid, r in self.rules.items():
            print("[%s %s] %s: instances=%d discharged=%d audited=%d known=%d violations=%d" % (
                self.pid, self.tier, rid, r["instances"], r["discharged"], r["audited"], r["known"], r["violations"]))
        if real:
            for v in real[:50]:
                print("  violation rule=%s key=%s at %s: %s" % (v["rule"], v["key"], v["where"], v["msg"]))
            print("VIOLATION property=%s replay=%s" % (self.pid, rpath))
            return 1
        return 0
