#!/usr/bin/env python3
"""Entry point: check.py <property id> <quick|thorough>.

Re-extracts the fact base whenever /repo's working tree changed, runs the static rules of the
property, writes /verif/evidence/<id>.json, prints VIOLATION / KNOWN-FINDING lines, exit 0/1."""
import importlib
import os
import sys
import traceback

HERE = os.path.dirname(os.path.abspath(__file__))
sys.path.insert(0, HERE)
import extract  # noqa: E402
import facts as factsmod  # noqa: E402
from report import Report  # noqa: E402


def main():
    if len(sys.argv) < 3:
        print("usage: check.py <ID> <quick|thorough>")
        return 2
    pid, tier = sys.argv[1], sys.argv[2]
    seed = int(os.environ.get("VERIF_SEED", "0") or 0)
    mod = importlib.import_module("props.%s" % pid.lower())
    rep = Report(pid, tier, seed, level=getattr(mod, "LEVEL", "other"))
    try:
        d = extract.ensure_facts()
    except SystemExit as e:
        # the tree does not compile: nothing can be decided, and this is not a property violation
        print("ERROR: %s" % e)
        return 2
    crates = getattr(mod, "CRATES_QUICK", None) if tier == "quick" else getattr(mod, "CRATES_THOROUGH", None)
    try:
        F = factsmod.Facts(d, crates)
        mod.run(F, rep, tier)
    except Exception:
        traceback.print_exc()
        rep.rule("internal", "checker ran to completion")
        rep.violation("internal", "exception", "checker raised an exception (fail closed): %s" % traceback.format_exc().splitlines()[-1])
    return rep.finish()


if __name__ == "__main__":
    sys.exit(main())
