#!/usr/bin/env python3
"""setup_cmd: build the driver and pre-extract the fact base of the current tree (offline)."""
import os, sys
sys.path.insert(0, os.path.dirname(os.path.abspath(__file__)))
import extract
extract.build_driver()
print(extract.ensure_facts())
