#!/usr/bin/env python3
"""Regenerates /verif/MANIFEST.json from the table below (single source of truth for the interface)."""
import json
import os

VERIF = os.path.dirname(os.path.dirname(os.path.abspath(__file__)))

NA = [
    ("C01", "Equates evaluation results with the FEEL semantics for all programs x inputs; the result value is not a property of the code's shape; its only structural sentence (determinism) is decided under C13."),
    ("C04", "Equates decision values with a reference evaluation of arbitrary requirement graphs; wiring correctness is semantic per graph, non-interference of unrelated inputs needs value reasoning about context contents."),
    ("C07", "Text <-> value agreement of a string-rewriting formatter over all decimal128 values; no structural necessary condition short of executing it."),
    ("C10", "Longest-match name resolution is position arithmetic against the run-time contents of the scope; nothing decidable from the code's shape (crash clause covered by C05, binding clause by C13)."),
    ("C14", "Literal text <-> temporal value for all dates/times/offsets/zones/durations; regex/format agreement depends on run-time value ranges."),
    ("C15", "Calendar validity, ordering and duration arithmetic over all instants; value-level, partly delegated to chrono."),
]

ALL = ['C%02d' % i for i in range(1, 21)]

# id -> (category, technique, level text, level note, design ref)
CLAIMED = {}


def claim(pid, category, technique, text, note, ref):
    CLAIMED[pid] = (category, technique, text, note, ref)


claim("C06", "translation_validation",
      "independent LALR(1) construction from feel.y compared cell-by-cell with the committed tables; precedence-conflict cells judged against the FEEL specification's binding levels; HIR rule->action->AST-node table extraction; guard-exactness rule on the driver's packed-table accesses (MIR facts); decision regions of the driver evaluated on representative table values; mode-flag reset rule for the lexer; character-class tables vs grammar rules 61/62; exactness of the binary operators' reduce actions",
      "Static translation validation of a generated artefact: every (state, look-ahead) action and every goto of the committed tables is compared with an independently constructed LALR(1) automaton of feel.y (all 282 states, ~17k cells, exhaustive), every precedence-resolved conflict is judged against the specification's operator levels, token numbering and the rule->action->AstNode mapping (incl. operand order) are extracted from the type-checked HIR. The driver itself is checked where it decides which table cell is consulted: at all four accesses to the packed tables the dominating comparisons must impose exactly bison's guard 0 <= index <= YY_LAST (a narrower guard silently drops cells); the comparisons that turn a table value into shift / reduce / error / default are evaluated on the representative values (YY_TABLE_N_INF, negative, 0, positive; YY_PACT_N_INF) and must give bison's actions, whatever the arrangement of the tests; every lexer mode flag the parser switches on (between, till_in, type_name, unary_tests) is switched off again, unconditionally or in each branch it selects; is_whitespace / is_vertical_space accept exactly the characters of grammar rules 61/62 (a delegation to char::is_whitespace is not that set); the reduce actions of the binary operators push one node built directly from the two popped nodes (no re-association). This is the right level because the parser's tree shape for every operator pair is decided by exactly these finite tables.",
      "Trusts: rustc's HIR/type check, bison's documented yyparse table semantics as re-implemented in Parser::parse (the rest of the driver loop - default actions, error branch - is not verified), the operator levels written in tables/feel_precedence.json. Not decided: lexing of literals/escapes, white space and comments, same-level comparison chains the specification leaves unordered.",
      "DESIGN.md §3 C06, §2.4 G8")


claim("C08", "other",
      "HIR decision-table extraction of the two 73-arm built-in dispatchers and Bif::from_str; sibling cross-check named vs positional wrapper (core callee sets, argument provenance) against the specification's parameter order; units-of-measure dataflow (UTF-8 bytes vs characters) over the MIR of the string built-ins; slice-end guard exactness; no derived equality on FEEL values; forward search in first-occurrence built-ins; helper expansion so that extract-function refactorings do not hide the wrappers' arguments",
      "Static rule checking over the type-checked HIR: exhaustive dispatch without wildcard, name<->variant bijection, for each of the 73 built-ins the core functions reached by the named wrapper are a subset of those reached by the positional wrapper, optional arguments are nulled alike, and every named parameter lands on the core argument index its positional counterpart uses (specification parameter order as oracle). For the 'positions count Unicode characters' clause a units analysis over bifs::core forbids adding/subtracting a byte offset (str::len, find) and a character count (chars().count()), slicing at a character position and stepping chars() by a byte amount; a range slice guarded by its end must be guarded by `end <= len`; built-ins never compare Value with Rust's derived equality (==, contains, dedup); the first-occurrence built-ins (substring before/after, index of, ...) use forward searches only. Decides the structural clauses only; the values computed by the ~40 core functions are not decided.",
      "Trusts rustc's name resolution (HIR callee paths) and tables/bif_signatures.json (DMN 1.3 parameter names, with the repository-pinned deviation for 'list contains'). Not decided: results of core functions for any argument tuple (positions, Unicode, boundaries).",
      "DESIGN.md §3 C08, §2.4 G6")


claim("C09", "other",
      "symbolic partial evaluation of the type-checked HIR over all operand-kind combinations: table symmetry (transpose), mirror-sibling agreement, Kleene truth tables, between/in-range/unary-test pairing; exhaustive evaluation of the temporal comparison helpers over the finite set of orderings; size-test and number-comparison consistency rules; PartialOrd/PartialEq of the temporal types evaluated against compare(); mirror-symmetry of the per-operand computations in compare()/subtract()",
      "Static table extraction: eval_ternary_equality, build_eq/nq/lt/gt/le/ge/and/or/between, eval_in_range and the four eval_in_unary_* are folded over every ordered pair (triple) of Value kinds with symbolic payloads; the equality table is compared with its transpose (all 21x21 cells), `!=` with the negation of `=`, `<`/`>` and `<=`/`>=` cell-by-cell with their mirror, and/or with the three-valued truth tables on a 5-symbol alphabet, between with the closed range, open ends with strict primitives. Dates, times and date-times are compared through one compare() -> Option<Ordering>; equal/before/after/between only look at its answer, so they are decided exhaustively over {Less, Equal, Greater, None} x the two interval flags (84 combinations, symbolic evaluation with compare() abstracted). Equality of two lists/contexts may answer true only after the sizes were compared (symmetry); FeelNumber's `=` and ordering must both go through decQuadCompare(self, rhs); FeelDate::partial_cmp and the eq impls of time / date-time must answer as compare() does (a textual or field-wise shortcut is reported); `!=`/`=` may not produce a result on a path that bypasses eval_ternary_equality; in compare()/subtract() every intermediate value derived from `other` is the same computation as the one derived from `me` (a crossed copy such as the zone offset of `other` looked up at the date of `me` is reported). Exhaustive over kinds and orderings, which is exactly the finite part of the property; the primitive comparisons on payloads are outside.",
      "Trusts rustc's HIR and the partial evaluator (engine/hireval.py: unknown conditions fork, loops are summarised by their early returns). Assumes PartialOrd/PartialEq of the payload types are coherent; the value-level laws (exactly one of <,=,> on concrete numbers/strings/dates) are not decided.",
      "DESIGN.md §3 C09, §2.4 G6")


claim("C16", "other",
      "HIR structural rules on FeelType::is_equivalent/is_conformant/coerced: match diagonal, provenance (side and component) of recursive calls = variance, loop-invariant-return detection, dominance of conformance tests over coerced's returns; iteration rule for Value::type_of on lists and contexts; accumulator-overwrite rule for component loops; helper expansion",
      "Static rule checking of the three functions that implement the relation: every FeelType variant has its own arm testing self for the same variant, every recursive call relates corresponding components with the variance the specification prescribes (contravariant only in function parameters), no decision inside an element loop is independent of the element (the nullary-function hole), and every non-null result of coerced is dominated by `type_of(value) conforms to target` (plus len()==1 for the unwrap); Value::type_of, which coerced relies on, types a list / context from all of its items / entries; a verdict accumulated over components may not be overwritten per iteration; private helpers of the relation are expanded at their call sites. These are the structural premises of the usual inductive preorder argument; the induction itself (transitivity over the infinite type universe) is stated, not mechanised.",
      "Trusts rustc's HIR/type resolution and engine/hirflow.py's provenance tracking. Not decided: transitivity as a semantic law, Value::type_of for the scalar kinds.",
      "DESIGN.md §3 C16")


claim("C17", "other",
      "HIR provenance/path rules over every Workspace method: co-mutation of the three indexes, single-object key provenance (or a dominating lookup-and-compare tie), evaluator invalidation on every mutating path, fall-through of deploy's Err arm; MIR forward dataflow: on every returning path the indexes touched are none or all three; per-model loop, stored-evaluator and argument-order rules",
      "Static rule checking of the structural conditions under which the list and the two indexes cannot drift apart: each public operation mutates all three together on one path with keys of one Definitions object, clears the evaluator map on every mutating path, deploy clears first and keeps going after a failed build; a forward dataflow over each operation's MIR (callee summaries for self methods) shows that no path returns with only some of the three indexes inserted into / removed from (an early return between the updates); per-model loops are never left because one model failed; the evaluator map only receives the Ok payload of ModelEvaluator::new; Workspace operations are called with their arguments in parameter order. These are necessary conditions of the history property; the set of models left by an arbitrary operation sequence is not computed (that would be model checking).",
      "Trusts rustc's HIR and engine/hirflow.py (private helpers are inlined into their callers, closures contribute their free variables). Not decided: the history property itself, error texts, ModelEvaluator::new.",
      "DESIGN.md §3 C17")


claim("C18", "other",
      "taint (must-pass-through-escaper) rule over every Jsonify impl reachable from a response and over hand-built bodies; route -> workspace-operation must-reach table over the HIR call graph; lock-result handling lint; writer/reader agreement of the TCK xsd-tag tables; single-shared-state rule for the actix worker factory; blocking-lock, all-bodies, DTO text and numeric reader rules; C17's rules as premises",
      "Static rule checking: (1) in Value/Values/FeelContext::jsonify and in the evaluate handler, every piece of text that reaches the JSON output is a constant, a scalar, a jsonify() result or the result of a structurally recognised JSON string escaper (for the kinds the property lists: string, number, boolean, null, list, context and context keys); (2) each of the seven definitions/evaluate routes reaches exactly the Workspace operation it stands for; (3) all other bodies come from serde (Json<..>, ResultDto::to_string); (4) RwLock results are matched, never unwrapped; (5) both Value->DTO writers give a kind the same xsd tag and the DTO->Value reader builds that kind from that tag; (6) the RwLock<Workspace> is created once outside the closure handed to HttpServer::new, so all workers share it. Decides the injection/escaping and endpoint-mapping clauses; value-level TCK round-trips and request-sequence equivalence are not decided.",
      "Trusts rustc's HIR, serde_json/actix for the bodies they build, and the structural escaper recogniser in props/c18.py (a function matching '\"' and '\\' and control characters to escape sequences). FeelNumber::jsonify is audited as numeric text (C07's domain). The no-panic-under-write-lock clause is decided under C12.",
      "DESIGN.md §3 C18")


claim("C20", "proof",
      "auto-trait (Send/Sync) facts from the compiler plus compile-fail witnesses; unsafe/static/extern inventories; MIR pointer-provenance rule at every FFI call; call-graph reachability of lock writers from the evaluation entry points; clang AST inventory of C globals; capture analysis of the shared evaluator closures",
      "Proof by obligations: Rust's type system excludes data races for safe code over Send/Sync types, so the property reduces to closing the holes. Obligations (all must discharge): the shared types are Send+Sync and Scope is Send but !Sync (compiler's own trait resolution, re-witnessed by compile_fail doc-tests with compiling twins in the thorough tier); every user-written unsafe block is FFI glue in dec.rs; at each of the 75 *mut FFI arguments the pointer provably designates a local of the calling frame or an exclusive &mut parameter (so the decNumber context and result buffers are private per call); none of the 104 statics is mutable or interior-mutable beyond its once-cell; from the evaluation entry points (call graph with dyn-Fn calls resolved by signature) no RwLock::write, Mutex, atomic write, thread-local or foreign RefCell mutation is reachable, the only acquisitions are reads, which neither exclude each other nor poison; the ~140 prepared evaluator closures that all threads share capture no cell (OnceLock, Mutex, RefCell, atomic) other than the read-only registries, so one call cannot leave a value for another; the five compiled C files define no mutable object with static storage (3 audited read-only exceptions). All interleavings are covered because the argument is schedule-independent.",
      "Trusted base: rustc's type checker/auto traits, soundness of std/regex/chrono/lazy_static, that decNumber writes only through its result and context arguments, the signature-based resolution of dyn calls, and the audited entries (regex::Regex statics, uarrone/allnines/mfctop in C). Deadlock freedom relies on evaluation taking read locks only; the build phase (ModelEvaluator::new) is single-threaded and is analysed under C12.",
      "DESIGN.md §3 C20, §2.4 G5/G9")


claim("C13", "other",
      "path-sensitive typestate (scope-depth) analysis over MIR with boolean-flag tracking and bottom-up summaries; interprocedural privacy fix-point for entry-depth writers; per-action effects composed along the grammar; type-level immutability walk; ambient-authority reachability",
      "Static effect analysis: for each of the ~100 bodies that can touch a caller-supplied Scope the analysis explores every MIR path (flags assigned from constants are tracked, so flag-guarded push/pop pairs match) and computes (net depth change, minimum depth, writes at entry depth); all evaluator closures and evaluation entry points must be neutral, loops with non-zero net effect are reported. Writers at entry depth (the boxed-context evaluator) are admitted only when an interprocedural fix-point shows every caller passes a scope it constructed or holds a pending push on (dyn calls resolved through builder return sets, falling back to the signature set). The effects of the parser's reduce actions are composed along feel.y: every non-terminal has a unique net effect, every start alternative nets 0 with names added only at depth >= 1. FeelContext/Value/number/temporal types contain no UnsafeCell (deep walk through Box/Vec/Arc/BTreeMap), so `&FeelContext` inputs cannot be altered; no clock/env/fs/net/rand call is reachable from evaluation except FeelDate::today_local (the property's own exception); evaluator closures capture no interior-mutable state except the read-only registries.",
      "Trusts rustc's MIR, the call graph (dyn calls by signature / builder pools), and that Scope's state is only reachable through its methods (its `contexts` field is private; the methods are classified from their own MIR). Assume/guarantee: a dyn evaluator call is neutral because every closure that can flow there is itself checked. Error (Err) returns of build-time functions may leave a context pushed; reported as notes, not claimed.",
      "DESIGN.md §3 C13, §2.4 G3/G4")


claim("C02", "other",
      "clang-AST facts of the bundled decNumber sources vs IEEE 754-2008 decimal128; Rust<->C agreement of constants, extern prototypes and #[repr(C)] layouts; MIR provenance of every FFI context argument; HIR operator->primitive table; must-pass-through (finite sanitizer) rule on evaluation-reachable number constructors; divisor-non-zero path rule on every FeelNumber division; formula and domain table for the numeric built-ins (modulo, abs, floor, ceiling, exp, sqrt, log, odd, even)",
      "Static rule checking of what the property says can change without touching an asserted value: the context decContextDefault installs for DEC_INIT_DECQUAD is 34 digits / emax 6144 / emin -6143 / half-even / no traps / clamp (clang AST of the switch), the Rust constants, all 32 extern declarations and the three #[repr(C)] layouts agree with the C headers under build.rs's defines (lsu holds 34 digits), each of the 32 FFI context arguments is a fresh clone of the lazily initialised default context and no Rust code writes a context field, each of 20 operators/methods reaches exactly the decNumber primitive the General Decimal Arithmetic specification names with operands in order and the named rounding constant, and every evaluation-reachable FeelNumber constructor fed by a primitive that can produce Infinity/NaN must test dec_is_finite first. Every FeelNumber division reachable from evaluation (6 sites) has a divisor that is compared with zero on the path, is a non-zero constant or the length of a non-empty collection (2 audited: stddev); every result of modulo / abs / floor / ceiling / exp / sqrt / log / odd / even is the specified operation of its argument(s) and is produced under exactly the specified domain test (an extra guard that nulls part of the domain is reported); even/odd use the decimal remainder. The sanitizer rule reports 7 genuine defects (Add, AddAssign, Sub, Mul, Div, exp, round), each confirmed with a FEEL expression and listed in known_findings.json; the repair changes operator signatures across the evaluator and is not a small patch.",
      "Trusts clang's AST, rustc's HIR/MIR/layout computation and the correctness of decNumber's C arithmetic; the 34-digit correctly-rounded results themselves are not decided. Alignment of DecQuad (1) vs decQuad (8) is recorded as a note. fract() is an audited exception (|x - trunc x| < 1).",
      "DESIGN.md §3 C02, §2.4 G9/G7")


claim("C03", "other",
      "HIR decision-table extraction of the hit-policy dispatch and of each evaluation method's (collection order, result shape, default path) compared with a specification table; attribute/marker string tables; MIR flag-provenance rule for rule matching; path-condition rules for ANY's agreement test and the lexicographic priority comparator; sibling agreement of the aggregators' refusal conditions; list-shape and accumulator rules",
      "Static table extraction: each of the 11 policy/aggregator combinations has its own arm and reaches one method; the helper that filters on `matches` without sorting is the rule-order collection and the one that sorts by position in the output values is the priority collection (classified from their bodies); each method must use the collection, return the shape (first of the collection / list / count / sum / min / max) and the default output on the empty-match path that DMN 8.2.8/8.2.11 prescribe, with the emptiness test dominating every other result; hitPolicy/aggregation attribute strings (XML) and the one-letter markers (text tables) map to the specified variants, defaults included; the rule-match flag is initialised true once and cleared only under a failed is_true() of an input entry inside the loop. ANY's null-on-disagreement compares complete rule results (all output components); the priority comparator leaves its component loop only on a strict difference and ends with Equal (ties resolved by later components); the three aggregating COLLECT methods give up under one and the same condition; get_results returns a list on every path; vectors gathered over the clauses of a table are only grown inside their loop, never overwritten. Which rules match for given inputs and output values are not decided.",
      "Trusts rustc's HIR/MIR and tables/hit_policy.json (DMN 1.3 8.2.8, 8.2.11). UNIQUE's conflict check (several matches -> null) is seen as a null result but its condition is not judged. Emptiness tests are recognised in the idioms is_empty / len comparisons / first()-last() / slice patterns.",
      "DESIGN.md §3 C03")


claim("C11", "other",
      "HIR table extraction over the copy-pasted per-type closure families (tag agreement between the dispatch key and every Value::U test / FeelType::U construction reached), classification-table check, must-call (coerced), result-sink and loop-shape rules; the structural rules of the conformance relation (C16) re-evaluated as premises; re-built container and typeRef normalisation rules",
      "Static rule checking: every `match` arm keyed by a simple FEEL type (a FeelType::K pattern or its typeRef name) in model-evaluator's builders - 7 families, 56 arms, following the per-type builder function each arm calls and its closure - may only test the value for Value::K and build FeelType::K; each family covers all eight simple kinds; the four defining facts of an item definition map to the ItemDefinitionType the specification gives (all 12 feasible combinations); decision, decision-service and knowledge-model results flow through FeelType::coerced with the declared output type (knowledge models via a function value carrying the result type, coerced at the three invocation sites); every write into the caller's output context by a decision / decision-service evaluator carries the result of coerced(); collection evaluators test for a list, check every item inside the loop and return null from inside the loop for a failing item, simple evaluators apply allowed values on the success path. Decides exactly the copy-slip the property describes; allowed-values semantics and values are not decided.",
      "Trusts rustc's HIR. Kind names are matched between Value and FeelType variants by name (same vocabulary in dmntk_feel); typeRef names are the TCK spellings listed in props/c11.py.",
      "DESIGN.md §3 C11")


claim("C05", "other",
      "whole-program call graph over MIR + panic-site inventory with guard-discharge rules (dominating-comparison facts, interval analysis, family rules with machine-checked side conditions), audited-site table with required guards, SCC recursion classification, exhaustive LALR driver index proof, lexer loop-progress rule (path-sensitive over the scanner's state variable)",
      "Totality as a reachability question: every panic-capable construct (MIR Assert for bounds / overflow / division - counted in both build modes -, calls to APIs documented to panic, explicit panics) reachable from the six parser entry points and the evaluator's public functions (quick: ~1060 bodies, ~445 sites; thorough adds result rendering and every pub fn of feel-evaluator) must be discharged by a local proof over the MIR (len/index/variant guards on the same places, interval analysis of widening arithmetic, constant folding, bounded counters), by a family rule (lexer position counter, parser value-stack depth from the grammar, Scope's RefCell re-entrancy, bison driver indices proved by exhaustive enumeration of all 282 x 61 table cells), or by an audited entry written after reading the code whose recorded guards must still dominate the site; anything else is a violation naming file:line and the call path. Call-graph cycles must be structural on an owned tree (checked on argument provenance) - the one exception, recursion through user function values, is a listed known finding (stack overflow on a deeply recursive FEEL function). Termination of the scanner: in every loop of a Lexer method each cycle advances the cursor, steps an iterator or counts down (MIR cycle analysis; the name state machine is explored with its constant state variable and its pure predicates tracked). Ten panics found this way were repaired with fix: commits.",
      "May-analysis: an alarm means no proof and no audit. Trusts the panicking-API table for std/chrono/regex (external callees not in it are assumed total and counted in the evidence), the call graph (dyn calls by signature, std callbacks by trait), and the 115 audited entries (each with its reason and required guards in tables/audited_sites.json). Not decided: stack depth in bytes for nesting 200, termination of data-dependent loops outside the lexer (FeelIterator ranges), time limits. Audited entries also pin the canonical form of the site's operands and the comparisons about them: a changed index computation or loop bound voids the audit.",
      "DESIGN.md §3 C05, §2.4 G1/G2/G8")

claim("C12", "other",
      "the C05 panic-site inventory (G1) and recursion classification (G2) from dmntk_model::parse, ModelEvaluator::new / evaluate_* and every public Workspace operation; reference-following recursion detection on the registries; write-lock self-deadlock rule; tuple-component guard facts for classification matches",
      "Same machinery as C05 with the model-level entry points (~1530 reachable bodies, ~450 sites): every reachable panic-capable site is discharged, audited or known. Reference-following recursion: every registry lookup function (DecisionEvaluator::evaluate, BusinessKnowledgeModelEvaluator::evaluate, DecisionServiceEvaluator::evaluate, the three item-definition evaluators, bring_knowledge_requirements_into_context) that lies on a call-graph cycle not passing through a generic FEEL evaluator call is reported: the pinned tree has no requirement-cycle detection, so all seven are listed as known findings, each with a witness model under known_findings_witnesses/ that makes the real code overflow its stack. While ModelEvaluator::new holds the write lock of a registry, the build it calls provably never locks the same registry again (8 acquisitions). Three index panics on malformed decision tables were repaired with a fix: commit.",
      "Same trusted base as C05. roxmltree is a leaf assumed total on arbitrary text. The seven reference cycles are one missing validation pass (requirement / typeRef cycle detection), not repaired because it is a new pass over three relations rather than a local patch.",
      "DESIGN.md §3 C12, §2.4 G1/G2/G5")
claim("C19", "other",
      "panic-site inventory (G1) over everything reachable from dmntk_recognizer's scan / Recognizer::recognize / builder::build with dominating-guard discharge rules and a per-site audited table; canvas-grid immutability rule on resolved MIR calls; cross-path agreement of the fields assigned by recognize_orientation",
      "Decides the 'never a panic' clause only. All ~236 panic-capable sites (index, unwrap, checked arithmetic, Vec::remove) reachable from the recogniser's entry points are enumerated from MIR; each is discharged by a dominating check, or audited against one of three stated invariants (canvas = fixed rectangle after scan(); plane = non-empty rectangle after finalize(); builder sizes validated by validate_size()). The canvas invariant's side condition (no Canvas method pushes/inserts/removes on the grid) is machine-checked with a positive control on scan(). Audited entries pin the site's operand computation and the comparisons about its operands (loop bounds included). One necessary condition of the fidelity clause is decided too: every successful exit of recognize_orientation assigns the same fields (hit policy, orientation, rule count). Two real panics (ragged plane in pivot(), rule-number scan leaving the plane) were repaired with a fix: commit.",
      "The audited reasons are human arguments, recorded per site and keyed by function, kind and occurrence, so any new or moved panic-capable site is reported. Recognition fidelity (same table as drawn / same result as the XML form) depends on run-time geometry and is not decided.",
      "DESIGN.md §3 C19, §2.4 G1")


def main():
    checks = []
    for pid in sorted(CLAIMED):
        cat, tech, text, note, ref = CLAIMED[pid]
        checks.append({
            "property_id": pid,
            "quick_cmd": "python3 /verif/engine/check.py %s quick" % pid,
            "thorough_cmd": "python3 /verif/engine/check.py %s thorough" % pid,
            "evidence_file": "/verif/evidence/%s.json" % pid,
            "replay_cmd_template": "cat {path}",
            "engine": "dmntk-static",
            "level_claimed": {"category": cat, "text": text, "design_ref": ref},
            "level_note": note,
            "technique": tech,
        })
    m = {
        "version": 1,
        "setup_cmd": "python3 /verif/engine/setup.py",
        "hooks": {
            "guard": "dmntk_verif",
            "enable": "none needed: the checks are static analyses of /repo's working tree (no instrumentation is compiled in)",
            "baseline_off_cmd": "cd /repo && cargo test --workspace --no-fail-fast --offline",
            "source_commits": [],
            "add_only": True,
        },
        "engines": [{
            "name": "dmntk-static",
            "path": "/verif/engine",
            "serves_properties": sorted(CLAIMED),
            "kind_free_text": "rustc_private fact extractor (MIR + type-checked HIR + items) under cargo +nightly check, clang AST facts for the bundled C library, independent LALR(1) construction; repository-specific rules in Python over the fact base (static analysis only, nothing of the analysed code is executed)",
        }],
        "checks": checks,
        "not_applicable": [{"property_id": p, "reason": r} for p, r in NA if p not in CLAIMED] + [
            {"property_id": p, "reason": "claimed in DESIGN.md but its static rules are not implemented yet in this revision; no verdict is given until they are"}
            for p in ALL if p not in CLAIMED and p not in dict(NA)],
        "notes": "Static analysis only; see DESIGN.md. A property appears under checks only once its rules are implemented and silent on the pinned tree (or report only listed known findings).",
    }
    with open(os.path.join(VERIF, "MANIFEST.json"), "w") as fh:
        json.dump(m, fh, indent=1)
    print("claimed:", sorted(CLAIMED), "n/a:", [p for p, _ in NA if p not in CLAIMED])


if __name__ == "__main__":
    main()
