#!/usr/bin/env python3
"""G8: grammar and LALR(1) table analysis.

* parses the bison subset used by feel-grammar/src/feel.y
* builds the LR(0) automaton and LALR(1) look-aheads (propagation algorithm),
  resolves conflicts the way bison does
* decodes the committed packed tables (values come from the compiler's HIR facts)
* pairs both automata by parallel traversal and compares them cell by cell
"""
import re
from collections import defaultdict, OrderedDict


class GrammarError(Exception):
    pass


class Grammar:
    def __init__(self):
        self.tokens = []          # declared token names in bison numbering order
        self.prec = {}            # token -> (level, assoc)
        self.start = None
        self.rules = []           # list of dict(lhs, rhs[list of symbols], prec_token, action, line, midrule_of)
        self.nonterminals = []    # order of definition (enclosing LHS before its mid-rule dummies)


def tokenize_y(text):
    i = 0
    n = len(text)
    line = 1
    out = []
    while i < n:
        c = text[i]
        if c == "\n":
            line += 1
            i += 1
        elif c.isspace():
            i += 1
        elif text.startswith("/*", i):
            j = text.find("*/", i + 2)
            if j < 0:
                raise GrammarError("unterminated comment at line %d" % line)
            line += text.count("\n", i, j)
            i = j + 2
        elif text.startswith("//", i):
            j = text.find("\n", i)
            i = n if j < 0 else j
        elif c == "{":
            depth = 0
            j = i
            while j < n:
                if text[j] == "{":
                    depth += 1
                elif text[j] == "}":
                    depth -= 1
                    if depth == 0:
                        break
                j += 1
            body = text[i + 1:j]
            m = re.search(r"/\*\s*([A-Za-z0-9_]+)\s*\*/", body)
            out.append(("action", m.group(1) if m else body.strip(), line))
            line += text.count("\n", i, j)
            i = j + 1
        elif text.startswith("%%", i):
            out.append(("sep", "%%", line))
            i += 2
        elif c == "%":
            m = re.match(r"%[A-Za-z_.\-]+", text[i:])
            out.append(("dir", m.group(0), line))
            i += len(m.group(0))
        elif c in ":|;":
            out.append((c, c, line))
            i += 1
        elif c.isalpha() or c == "_":
            m = re.match(r"[A-Za-z_][A-Za-z0-9_.]*", text[i:])
            out.append(("id", m.group(0), line))
            i += len(m.group(0))
        elif c == "'":
            out.append(("id", text[i:i + 3], line))
            i += 3
        else:
            raise GrammarError("unexpected character %r at line %d" % (c, line))
    return out


def parse_y(text):
    toks = tokenize_y(text)
    g = Grammar()
    i = 0
    level = 0
    # declarations
    while i < len(toks) and toks[i][0] != "sep":
        k, v, ln = toks[i]
        if k == "dir" and v == "%define":
            i += 1
            # %define name {value} | %define name value
            while i < len(toks) and toks[i][0] in ("id", "action"):
                i += 1
            continue
        if k == "dir" and v == "%start":
            g.start = toks[i + 1][1]
            i += 2
            continue
        if k == "dir" and v == "%token":
            i += 1
            while i < len(toks) and toks[i][0] == "id":
                if toks[i][1] not in g.tokens:
                    g.tokens.append(toks[i][1])
                i += 1
            continue
        if k == "dir" and v in ("%left", "%right", "%nonassoc", "%precedence"):
            level += 1
            assoc = v[1:]
            i += 1
            while i < len(toks) and toks[i][0] == "id":
                t = toks[i][1]
                if t not in g.tokens:
                    g.tokens.append(t)
                g.prec[t] = (level, assoc)
                i += 1
            continue
        raise GrammarError("unsupported declaration %r at line %d" % (v, ln))
    i += 1  # skip %%
    mid = 0
    # rules
    while i < len(toks) and toks[i][0] != "sep":
        if toks[i][0] != "id" or toks[i + 1][0] != ":":
            raise GrammarError("rule expected at line %d" % toks[i][2])
        lhs = toks[i][1]
        if lhs not in g.nonterminals:
            g.nonterminals.append(lhs)
        i += 2
        while True:
            # one alternative
            rhs = []
            actions = []  # (position in rhs, action name)
            prec_token = None
            ln = toks[i][2] if i < len(toks) else 0
            while i < len(toks) and toks[i][0] not in ("|", ";"):
                k, v, l2 = toks[i]
                if k == "id":
                    rhs.append(v)
                elif k == "action":
                    actions.append((len(rhs), v))
                elif k == "dir" and v == "%prec":
                    prec_token = toks[i + 1][1]
                    i += 1
                elif k == "dir" and v == "%empty":
                    pass
                else:
                    raise GrammarError("unexpected %r in rule at line %d" % (v, l2))
                i += 1
            # split mid-rule actions: an action is final iff it is the last element of the alternative
            final_action = None
            pending = []
            seen_syms = 0
            # recompute order of elements: we need to know whether an action is last
            # (actions list holds (pos, name); final iff pos == len(rhs) and it is the last action)
            new_rhs = []
            act_by_pos = defaultdict(list)
            for pos, name in actions:
                act_by_pos[pos].append(name)
            mids = []
            for pos in range(len(rhs) + 1):
                for ai, name in enumerate(act_by_pos.get(pos, [])):
                    is_last = pos == len(rhs) and ai == len(act_by_pos[pos]) - 1
                    if is_last:
                        final_action = name
                    else:
                        mid += 1
                        dummy = "$@%d" % mid
                        mids.append((dummy, name, len(new_rhs)))
                        new_rhs.append(dummy)
                if pos < len(rhs):
                    new_rhs.append(rhs[pos])
            for dummy, name, at in mids:
                g.nonterminals.append(dummy)
                g.rules.append(dict(lhs=dummy, rhs=[], prec_token=None, action=name, line=ln, midrule_of=lhs, mid_pos=at))
            g.rules.append(dict(lhs=lhs, rhs=new_rhs, prec_token=prec_token, action=final_action, line=ln, midrule_of=None))
            # patch: the enclosing rule index for the mid-rule dummies
            for dummy, name, at in mids:
                for r in g.rules:
                    if r["lhs"] == dummy:
                        r["enclosing"] = len(g.rules) - 1
            if toks[i][0] == "|":
                i += 1
                continue
            i += 1  # ;
            break
    if g.start is None:
        g.start = g.rules[0]["lhs"]
    # augment
    g.rules.insert(0, dict(lhs="$accept", rhs=[g.start, "$end"], prec_token=None, action=None, line=0, midrule_of=None))
    for r in g.rules:
        if "enclosing" in r:
            r["enclosing"] += 1
    g.terminals = ["$end", "error", "$undefined"] + g.tokens
    g.termset = set(g.terminals)
    for r in g.rules:
        for s in r["rhs"]:
            if s not in g.termset and s not in g.nonterminals:
                raise GrammarError("symbol %s is neither a declared token nor defined by a rule" % s)
    return g


class Automaton:
    pass


def build_lalr(g):
    rules = g.rules
    nts = set(["$accept"] + g.nonterminals)
    by_lhs = defaultdict(list)
    for i, r in enumerate(rules):
        by_lhs[r["lhs"]].append(i)
    # nullable / first
    nullable = set()
    changed = True
    while changed:
        changed = False
        for r in rules:
            if r["lhs"] not in nullable and all(s in nullable for s in r["rhs"]):
                nullable.add(r["lhs"])
                changed = True
    first = defaultdict(set)
    for t in g.terminals:
        first[t] = {t}
    changed = True
    while changed:
        changed = False
        for r in rules:
            f = first[r["lhs"]]
            before = len(f)
            for s in r["rhs"]:
                f |= first[s]
                if s not in nullable:
                    break
            if len(f) != before:
                changed = True

    def first_seq(seq, la):
        out = set()
        for s in seq:
            out |= first[s]
            if s not in nullable:
                return out
        out.add(la)
        return out

    def closure0(kernel):
        items = list(kernel)
        seen = set(items)
        k = 0
        while k < len(items):
            ri, dot = items[k]
            k += 1
            rhs = rules[ri]["rhs"]
            if dot < len(rhs) and rhs[dot] in nts:
                for rj in by_lhs[rhs[dot]]:
                    it = (rj, 0)
                    if it not in seen:
                        seen.add(it)
                        items.append(it)
        return items

    states = []       # kernel tuples
    index = {}
    trans = []        # per state: symbol -> state
    closures = []
    start = ((0, 0),)
    index[start] = 0
    states.append(start)
    k = 0
    while k < len(states):
        cl = closure0(states[k])
        closures.append(cl)
        moves = OrderedDict()
        for ri, dot in cl:
            rhs = rules[ri]["rhs"]
            if dot < len(rhs):
                moves.setdefault(rhs[dot], []).append((ri, dot + 1))
        tr = {}
        for sym, kern in moves.items():
            kt = tuple(sorted(set(kern)))
            if kt not in index:
                index[kt] = len(states)
                states.append(kt)
            tr[sym] = index[kt]
        trans.append(tr)
        k += 1

    # LALR(1) look-aheads by propagation
    la = [defaultdict(set) for _ in states]   # state -> kernel item -> set
    la[0][(0, 0)] = set()  # $accept: . start $end  ($end is part of the rule)
    prop = defaultdict(list)
    HASH = "#"

    def closure1(item, lookahead):
        # LR(1) closure of a single kernel item with lookahead
        res = {}
        work = [(item, lookahead)]
        while work:
            (ri, dot), l = work.pop()
            key = (ri, dot)
            if l in res.get(key, ()):
                continue
            res.setdefault(key, set()).add(l)
            rhs = rules[ri]["rhs"]
            if dot < len(rhs) and rhs[dot] in nts:
                fs = first_seq(rhs[dot + 1:], l)
                for rj in by_lhs[rhs[dot]]:
                    for b in fs:
                        work.append(((rj, 0), b))
        return res

    for si, kern in enumerate(states):
        for item in kern:
            cl = closure1(item, HASH)
            for (ri, dot), las in cl.items():
                rhs = rules[ri]["rhs"]
                if dot < len(rhs):
                    tgt = trans[si][rhs[dot]]
                    titem = (ri, dot + 1)
                    for l in las:
                        if l == HASH:
                            prop[(si, item)].append((tgt, titem))
                        else:
                            la[tgt][titem].add(l)
    changed = True
    while changed:
        changed = False
        for (si, item), tgts in prop.items():
            src = la[si][item]
            for (tj, titem) in tgts:
                dst = la[tj][titem]
                before = len(dst)
                dst |= src
                if len(dst) != before:
                    changed = True

    # reductions with look-aheads per state (need closure items with empty rhs as well)
    reduce_la = []
    for si, kern in enumerate(states):
        red = defaultdict(set)
        for item in kern:
            cl = closure1(item, HASH)
            for (ri, dot), las in cl.items():
                if dot == len(rules[ri]["rhs"]):
                    for l in las:
                        if l == HASH:
                            red[ri] |= la[si][item]
                        else:
                            red[ri].add(l)
        reduce_la.append(red)

    a = Automaton()
    a.g = g
    a.states = states
    a.closures = closures
    a.trans = trans
    a.reduce_la = reduce_la
    a.nullable = nullable
    a.first = first
    a.nts = nts
    return a


def rule_prec(g, r):
    if r["prec_token"]:
        return g.prec.get(r["prec_token"])
    for s in reversed(r["rhs"]):
        if s in g.termset:
            return g.prec.get(s)
    return None


def resolve_actions(a):
    """per state: token -> ('shift', state) | ('reduce', rule) | ('error-nonassoc',) | ('accept',)
    plus the list of conflicts and how each was resolved"""
    g = a.g
    actions = []
    conflicts = []
    for si in range(len(a.states)):
        act = {}
        for sym, tgt in a.trans[si].items():
            if sym in g.termset:
                act[sym] = ("shift", tgt)
        for ri in sorted(a.reduce_la[si]):
            for t in a.reduce_la[si][ri]:
                if ri == 0:
                    continue
                cur = act.get(t)
                if cur is None:
                    act[t] = ("reduce", ri)
                elif cur[0] == "shift":
                    rp = rule_prec(g, g.rules[ri])
                    tp = g.prec.get(t)
                    if rp is None or tp is None:
                        conflicts.append(dict(state=si, token=t, kind="S/R", rule=ri, resolution="unresolved->shift"))
                    elif rp[0] > tp[0]:
                        act[t] = ("reduce", ri)
                        conflicts.append(dict(state=si, token=t, kind="S/R", rule=ri, resolution="reduce(prec)"))
                    elif rp[0] < tp[0]:
                        conflicts.append(dict(state=si, token=t, kind="S/R", rule=ri, resolution="shift(prec)"))
                    else:
                        assoc = tp[1]
                        if assoc == "left":
                            act[t] = ("reduce", ri)
                            conflicts.append(dict(state=si, token=t, kind="S/R", rule=ri, resolution="reduce(left)"))
                        elif assoc == "right":
                            conflicts.append(dict(state=si, token=t, kind="S/R", rule=ri, resolution="shift(right)"))
                        elif assoc == "nonassoc":
                            act[t] = ("error-nonassoc",)
                            conflicts.append(dict(state=si, token=t, kind="S/R", rule=ri, resolution="error(nonassoc)"))
                        else:
                            conflicts.append(dict(state=si, token=t, kind="S/R", rule=ri, resolution="unresolved->shift"))
                elif cur[0] == "reduce":
                    keep = min(cur[1], ri)
                    act[t] = ("reduce", keep)
                    conflicts.append(dict(state=si, token=t, kind="R/R", rule=ri, other=cur[1], resolution="unresolved->rule %d" % keep))
                elif cur[0] == "error-nonassoc":
                    pass
        actions.append(act)
    return actions, conflicts


class Tables:
    """bison's packed tables, with the semantics of yyparse"""

    def __init__(self, consts):
        self.c = consts
        for k in ("YY_PACT", "YY_DEF_ACT", "YY_P_GOTO", "YY_DEF_GOTO", "YY_TABLE", "YY_CHECK", "YY_R1", "YY_R2", "YY_TRANSLATE",
                  "YY_PACT_N_INF", "YY_TABLE_N_INF", "YY_FINAL", "YY_LAST", "YY_N_TOKENS"):
            if k not in consts:
                raise GrammarError("table constant %s not found in lalr.rs" % k)
        self.nstates = len(consts["YY_PACT"])
        self.ntokens = consts["YY_N_TOKENS"]

    def action(self, state, tok):
        """tok = internal symbol number.  returns ('shift', s) | ('reduce', r) | ('error',) ; default flag"""
        c = self.c
        yyn = c["YY_PACT"][state]
        if yyn == c["YY_PACT_N_INF"]:
            return self.default(state)
        yyn += tok
        if yyn < 0 or c["YY_LAST"] < yyn or yyn >= len(c["YY_CHECK"]) or c["YY_CHECK"][yyn] != tok:
            return self.default(state)
        yyn = c["YY_TABLE"][yyn]
        if yyn <= 0:
            if yyn == 0 or yyn == c["YY_TABLE_N_INF"]:
                return ("error",), False
            return ("reduce", -yyn), False
        return ("shift", yyn), False

    def default(self, state):
        r = self.c["YY_DEF_ACT"][state]
        if r == 0:
            return ("error",), True
        return ("reduce", r), True

    def goto(self, state, nt_sym):
        c = self.c
        lhs = nt_sym - self.ntokens
        yyi = c["YY_P_GOTO"][lhs] + state
        if 0 <= yyi <= c["YY_LAST"] and yyi < len(c["YY_CHECK"]) and c["YY_CHECK"][yyi] == state:
            return c["YY_TABLE"][yyi]
        return c["YY_DEF_GOTO"][lhs]


def compare(a, actions, tables):
    """returns (report dict, mismatches list)"""
    g = a.g
    mism = []
    tnum = {t: i for i, t in enumerate(g.terminals)}
    # nonterminal numbering from YY_R1 (table rule n = grammar rule n-1)
    r1 = tables.c["YY_R1"]
    r2 = tables.c["YY_R2"]
    if len(r1) != len(g.rules) + 1 or len(r2) != len(g.rules) + 1:
        mism.append(dict(kind="rule-count", grammar=len(g.rules), tables=len(r1) - 1))
        return dict(cells=0), mism
    ntnum = {}
    rev = {}
    for i, r in enumerate(g.rules):
        n = r1[i + 1]
        if r["lhs"] in ntnum and ntnum[r["lhs"]] != n:
            mism.append(dict(kind="YY_R1", rule=i + 1, lhs=r["lhs"], expected=ntnum[r["lhs"]], got=n))
        if n in rev and rev[n] != r["lhs"]:
            mism.append(dict(kind="YY_R1", rule=i + 1, lhs=r["lhs"], clash_with=rev[n], got=n))
        ntnum.setdefault(r["lhs"], n)
        rev.setdefault(n, r["lhs"])
        if n < tables.ntokens:
            mism.append(dict(kind="YY_R1", rule=i + 1, lhs=r["lhs"], got=n, why="left-hand side numbered as a token"))
        if r2[i + 1] != len(r["rhs"]):
            mism.append(dict(kind="YY_R2", rule=i + 1, lhs=r["lhs"], expected=len(r["rhs"]), got=r2[i + 1]))
    if tables.ntokens != len(g.terminals):
        mism.append(dict(kind="YY_N_TOKENS", expected=len(g.terminals), got=tables.ntokens))
    if mism:
        return dict(cells=0), mism
    # pairing by parallel traversal
    pair = {0: 0}
    rpair = {0: 0}
    work = [0]
    while work:
        s = work.pop()
        ts = pair[s]
        for sym, tgt in a.trans[s].items():
            if sym in g.termset:
                act, dflt = tables.action(ts, tnum[sym])
                if act[0] != "shift":
                    # may legitimately be removed by conflict resolution; checked below cell by cell
                    continue
                tt = act[1]
            else:
                tt = tables.goto(ts, ntnum[sym])
            if tgt in pair:
                if pair[tgt] != tt:
                    mism.append(dict(kind="pairing", state=s, symbol=sym, grammar_target=tgt, expected_table_state=pair[tgt], got=tt))
            else:
                if tt in rpair:
                    mism.append(dict(kind="pairing", state=s, symbol=sym, why="table state %d already paired with %d" % (tt, rpair[tt])))
                    continue
                if not (0 <= tt < tables.nstates):
                    mism.append(dict(kind="pairing", state=s, symbol=sym, why="table target %d out of range" % tt))
                    continue
                pair[tgt] = tt
                rpair[tt] = tgt
                work.append(tgt)
    if len(a.states) != tables.nstates:
        mism.append(dict(kind="state-count", grammar=len(a.states), tables=tables.nstates))
    unpaired = [s for s in range(len(a.states)) if s not in pair]
    cells = 0
    gotos = 0
    tolerated_default = 0
    for s in range(len(a.states)):
        if s not in pair:
            continue
        ts = pair[s]
        completed = {ri for (ri, dot) in a.closures[s] if dot == len(g.rules[ri]["rhs"])}
        # accept state
        if any(ri == 0 and dot == 2 for (ri, dot) in a.states[s]):
            if ts != tables.c["YY_FINAL"]:
                mism.append(dict(kind="YY_FINAL", expected=ts, got=tables.c["YY_FINAL"]))
            continue
        for t in g.terminals:
            if t in ("error", "$undefined"):
                continue
            cells += 1
            want = actions[s].get(t)
            got, dflt = tables.action(ts, tnum[t])
            if want is None:
                if got[0] == "error":
                    continue
                if got[0] == "reduce" and dflt and (got[1] - 1) in completed:
                    tolerated_default += 1
                    continue
                mism.append(dict(kind="cell", state=s, table_state=ts, token=t, grammar="error", table=list(got), items=items_text(a, s)))
            elif want[0] == "shift":
                if got[0] != "shift" or pair.get(want[1]) != got[1]:
                    mism.append(dict(kind="cell", state=s, table_state=ts, token=t, grammar="shift %s" % pair.get(want[1]), table=list(got), items=items_text(a, s)))
            elif want[0] == "reduce":
                if got[0] != "reduce" or got[1] != want[1] + 1:
                    mism.append(dict(kind="cell", state=s, table_state=ts, token=t, grammar="reduce %d" % (want[1] + 1), table=list(got), items=items_text(a, s)))
            elif want[0] == "error-nonassoc":
                if got[0] != "error":
                    mism.append(dict(kind="cell", state=s, table_state=ts, token=t, grammar="error (nonassoc)", table=list(got), items=items_text(a, s)))
        for sym, tgt in a.trans[s].items():
            if sym not in g.termset:
                gotos += 1
                tt = tables.goto(ts, ntnum[sym])
                if pair.get(tgt) != tt:
                    mism.append(dict(kind="goto", state=s, table_state=ts, symbol=sym, grammar=pair.get(tgt), table=tt))
    rep = dict(states=len(a.states), paired=len(pair), unpaired=unpaired, cells=cells, gotos=gotos,
               tolerated_default_reductions=tolerated_default, pair=pair, ntnum=ntnum, tnum=tnum)
    if unpaired:
        mism.append(dict(kind="pairing", why="grammar states not reachable in the tables", states=unpaired[:10]))
    return rep, mism


def items_text(a, s, limit=6):
    out = []
    for ri, dot in a.states[s][:limit]:
        r = a.g.rules[ri]
        rhs = list(r["rhs"])
        rhs.insert(dot, ".")
        out.append("%s: %s" % (r["lhs"], " ".join(rhs)))
    return out


def derives_self(g, nullable):
    """non-terminals A with A =>+ A (would make the driver loop cycle on reductions)"""
    unit = defaultdict(set)
    for r in g.rules:
        rhs = r["rhs"]
        for i, s in enumerate(rhs):
            if s in g.termset:
                continue
            rest = rhs[:i] + rhs[i + 1:]
            if all(x in nullable for x in rest):
                unit[r["lhs"]].add(s)
    bad = []
    for a0 in list(unit):
        seen = set()
        work = list(unit[a0])
        while work:
            x = work.pop()
            if x in seen:
                continue
            seen.add(x)
            work.extend(unit.get(x, ()))
        if a0 in seen:
            bad.append(a0)
    return bad


def const_arrays_from_hir(hir_items, prefix="dmntk_feel_parser::lalr::"):
    """evaluate the literal consts of lalr.rs from their HIR trees"""
    out = {}

    def ev(n):
        k = n.get("k")
        if k == "Lit":
            return n.get("v")
        if k == "Unary" and n.get("op") == "-":
            v = ev(n["a"])
            return -v if isinstance(v, int) else None
        if k == "Array":
            return [ev(e) for e in n["es"]]
        if k == "Block" and not n["b"].get("stmts") and n["b"].get("e"):
            return ev(n["b"]["e"])
        if k == "Cast":
            return ev(n["e"])
        return None
    for h in hir_items:
        if h["kind"] == "const" and h["name"].startswith(prefix):
            v = ev(h["body"])
            if v is not None:
                out[h["name"][len(prefix):]] = v
    return out
