#!/usr/bin/env python3
"""G3: scope-effect analysis - a path-sensitive typestate analysis over MIR.

For every body that can touch an *external* Scope (a `&Scope` it received as a parameter, captured, or reached through
`self`), compute the summary  (set of net depth changes on normal return, minimum relative depth reached,
whether a context at the entry depth is written).  Boolean flags assigned from constants are tracked (ESP-style
property simulation) so that `if pushed { scope.pop() }` does not produce an infeasible-path alarm.
Effects on a Scope object that the frame itself constructed (a by-value local of type Scope) are private and ignored.
"""
import re
from collections import defaultdict

import mirutil

SCOPE_TY = "dmntk_feel::scope::Scope"
DEPTH_BOUND = 6


def is_scope_ref_ty(t):
    t = t.replace("mut ", "")
    return re.fullmatch(r"&('[a-z_0-9]+ )?" + re.escape(SCOPE_TY), t) is not None


class Summary:
    def __init__(self):
        self.deltas = set()      # net depth change on normal return
        self.min = 0             # minimum relative depth reached
        self.writes0 = []        # [(line, what)] writes into the context at entry depth (relative depth 0)
        self.problems = []       # [(kind, line, msg)]
        self.touches = False     # has any effect / passes the scope on
        self.sites = 0
        self.err_deltas = set()  # net depth change on returns that carry Err(..) (informational)
        self.site_depth = {}     # block index of a call that passes the external scope on -> minimum depth at that point

    def neutral(self):
        return self.deltas <= {0} and self.min >= 0 and not self.writes0 and not self.problems

    def __repr__(self):
        return "Summary(deltas=%s,min=%d,writes0=%d,problems=%d)" % (sorted(self.deltas), self.min, len(self.writes0), len(self.problems))


def scope_primitives(F):
    """classify the methods of Scope by what they do to the `contexts` vector: derived from their MIR, not from their names"""
    prims = {}
    for n, b in F.bodies.items():
        if not (n.startswith(SCOPE_TY + "::") or n.startswith("<" + SCOPE_TY + " as ")):
            continue
        if b["kind"] == "closure":
            continue
        eff = set()
        for bi, c in F.body_calls(b):
            p = c["f"].get("p") or ""
            m = p.split("::")[-1]
            if "alloc::vec::Vec" in p or "core::slice::<impl [T]>" in p:
                if m == "push":
                    eff.add("push")
                elif m == "pop":
                    eff.add("pop")
                elif m in ("last_mut", "first_mut", "iter_mut", "get_mut", "as_mut_slice", "index_mut"):
                    eff.add("write-top" if m == "last_mut" else "write-any")
                elif m in ("clear", "truncate", "insert", "remove", "drain", "swap", "swap_remove", "retain", "append", "extend", "split_off", "dedup", "resize", "set_len", "reverse", "sort"):
                    eff.add("restructure:" + m)
            if p.endswith("IndexMut::index_mut") or p.endswith("::index_mut"):
                eff.add("write-any")
        prims[n] = eff
    # a method that calls another method of Scope (a private helper such as `with_top_context(|c| ..)`) has that method's effects too
    changed = True
    rounds = 0
    while changed and rounds < 5:
        changed = False
        rounds += 1
        for n, b in F.bodies.items():
            if n not in prims:
                continue
            for bi, c in F.body_calls(b):
                p = c["f"].get("p") or ""
                if p in prims and p != n and not prims[p] <= prims[n]:
                    prims[n] |= prims[p]
                    changed = True
    return prims


def scope_carriers(F):
    """ADTs that hold a `&Scope` (directly or through another carrier): Lexer, Parser, ..."""
    carriers = set()
    changed = True
    while changed:
        changed = False
        for n, a in F.adts.items():
            if n in carriers:
                continue
            for v in a["variants"]:
                for f in v["fields"]:
                    t = F.ty(a, f["ty"])
                    bare = re.sub(r"'[a-z_0-9]+ ?", "", t).replace("&mut ", "&")
                    core = re.sub(r"<.*>$", "", bare.lstrip("&"))
                    if bare == "&" + SCOPE_TY or core in carriers:
                        carriers.add(n)
                        changed = True
                        break
                if n in carriers:
                    break
    return carriers


class ScopeAnalysis:
    def __init__(self, F, G):
        self.F = F
        self.G = G
        self.carriers = scope_carriers(F)
        self.prims = scope_primitives(F)
        self.summaries = {}
        self.in_progress = set()
        self.closure_upvar_scope = {}

    # ------------------------------------------------------------------
    def external_scope_operand(self, B, op):
        """does this operand designate an external scope (one the frame did not construct itself)?
        returns True / False / None (not a scope reference)"""
        if op[0] not in ("C", "M"):
            return None
        pl = op[1]
        # type of the place
        t = self.place_ty(B, pl)
        if t is None:
            return None
        if t.startswith("(") and len(pl) == 1 and "Scope" in t:
            # the argument tuple of a closure / evaluator call `f(scope)`: Fn::call(&f, (scope,))
            defs = B.defs.get(pl[0], [])
            if len(defs) == 1 and defs[0][2] == "assign" and defs[0][3][2][0] == "Agg" and defs[0][3][2][1] == "tuple":
                vs = [self.external_scope_operand(B, x) for x in defs[0][3][2][2]]
                if any(v is True for v in vs):
                    return True
                if any(v is False for v in vs):
                    return False
            return None
        if self.is_carrier_ref(t):
            return True
        if not is_scope_ref_ty(t):
            return None
        roots = B.pointer_root(op)
        if not roots:
            return True
        private = True
        for r in roots:
            if r[0] == "local" and SCOPE_TY == B.local_ty(r[1]).replace("mut ", ""):
                continue
            private = False
        return not private

    def is_carrier_ref(self, t):
        if not t.startswith("&"):
            return False
        bare = re.sub(r"'[a-z_0-9]+ ?", "", t).replace("&mut ", "").replace("&", "")
        bare = re.sub(r"<.*>$", "", bare)
        return bare in self.carriers

    def place_ty(self, B, pl):
        l = pl[0]
        proj = pl[1:]
        t = B.local_ty(l)
        if not proj:
            return t
        # closure upvar: (*_1).k  or  _1.k
        b = B.b
        if b["kind"] == "closure" and l == 1 and "upvars" in b:
            for e in proj:
                if isinstance(e, list) and e[0] == ".":
                    k = e[1]
                    if k < len(b["upvars"]):
                        t = B.types[b["upvars"][k]]
                        rest = proj[proj.index(e) + 1:]
                        if rest == ["*"] and t.startswith("&"):
                            return t  # reborrow of the captured reference
                        if not rest:
                            return t
                        return None
            return None
        # field of self holding &Scope (Lexer.scope, Parser.scope): use ADT facts
        base = t.replace("&mut ", "").replace("&", "")
        base = re.sub(r"^'[a-z_0-9]+ ", "", base)
        adtname = re.sub(r"<.*>$", "", base)
        adt = self.F.adts.get(adtname)
        cur = adt
        ty = None
        for e in proj:
            if e == "*":
                continue
            if isinstance(e, list) and e[0] == "." and cur is not None:
                fields = cur["variants"][0]["fields"]
                if e[1] < len(fields):
                    ty = self.F.ty(cur, fields[e[1]]["ty"])
                    nm = re.sub(r"<.*>$", "", ty.replace("&mut ", "").replace("&", ""))
                    nm = re.sub(r"^'[a-z_0-9]+ ", "", nm)
                    cur = self.F.adts.get(nm)
                else:
                    return None
            else:
                return None
        return ty

    # ------------------------------------------------------------------
    def summary(self, name):
        if name in self.summaries:
            return self.summaries[name]
        if name in self.in_progress:
            s = Summary()
            s.deltas = {0}
            return s   # recursion: assume neutral, verified when the cycle head completes
        self.in_progress.add(name)
        try:
            s = self.analyse(name)
        finally:
            self.in_progress.discard(name)
        self.summaries[name] = s
        return s

    def analyse(self, name):
        F = self.F
        b = F.bodies[name]
        B = mirutil.Body(F, b)
        S = Summary()
        blocks = b["blocks"]
        # cheap pre-check: does the body mention a &Scope at all?
        has_scope = any(is_scope_ref_ty(B.types[t]) or B.types[t].replace("mut ", "") == SCOPE_TY or self.is_carrier_ref(B.types[t]) for t in b["locals"]) or \
            any(is_scope_ref_ty(B.types[t]) for t in b.get("upvars", []))
        if not has_scope:
            S.deltas = {0}
            return S
        # pre-compute per-call effects
        effects = {}   # block -> list of ('delta', d) / ('write',) / ('callee', summary) / ('unknown', msg)
        for bi, bl in enumerate(blocks):
            t = bl["t"]
            effs = []
            # closures created in this block that capture an external scope
            for st in bl["s"]:
                if st[0] == "A" and st[2][0] == "Agg" and isinstance(st[2][1], list) and st[2][1][0] == "closure":
                    clo = st[2][1][1]
                    caps = [op for op in st[2][2] if self.external_scope_operand(B, op)]
                    if caps and clo in F.bodies:
                        if clo in self.G.deferred:
                            effs.append(("unknown", "a closure capturing the caller's scope is stored as a deferred evaluator (%s)" % clo, st[3] if len(st) > 3 else None))
                        else:
                            cs = self.summary(clo)
                            effs.append(("closure", cs, clo, st[3] if len(st) > 3 else None))
            if t[0] == "call":
                c = t[1]
                args = c["args"]
                ext = [i for i, a in enumerate(args) if self.external_scope_operand(B, a)]
                if ext:
                    S.sites += 1
                    p = c["f"].get("p")
                    k = c["f"].get("k")
                    line = c.get("line")
                    orig = c["f"].get("o") or p or ""
                    if p in self.prims:
                        eff = self.prims[p]
                        if not eff:
                            pass
                        for e in sorted(eff):
                            if e == "push":
                                effs.append(("delta", +1, line))
                            elif e == "pop":
                                effs.append(("delta", -1, line))
                            elif e == "write-top":
                                effs.append(("write", line, p.split("::")[-1]))
                            else:
                                effs.append(("unknown", "Scope method %s restructures the context stack (%s)" % (p, e), line))
                    elif p in F.bodies and k != "virtual":
                        effs.append(("callee", self.summary(p), p, line))
                    elif k in ("virtual", "fnptr") or orig.startswith("core::ops::function::Fn"):
                        # evaluator call: neutral by assume/guarantee (every closure that can flow here is itself an obligation)
                        effs.append(("dyn", line, ext))
                    elif p and (p.startswith("<" + SCOPE_TY + " as core::fmt") or p.startswith("core::fmt") or "Debug" in p or "Display" in p or p.startswith("core::clone")):
                        pass
                    else:
                        cands = [e for e in self.G.edges.get(name, ()) if e[2] == bi and e[0] in ("trait",)]
                        if cands:
                            for e in cands:
                                effs.append(("callee", self.summary(e[1]), e[1], line))
                        else:
                            effs.append(("unknown", "the caller's scope is handed to %s, whose effect is not known" % p, line))
            if effs:
                effects[bi] = effs
        if not effects:
            S.deltas = {0}
            return S
        S.touches = True
        # options whose variant is worth remembering: locals that are both tested (`discriminant(x)`, `x.is_some()`) in this body, closed under whole-value copies
        tested = set()
        for bl in blocks:
            for st in bl["s"]:
                if st[0] == "A" and st[2][0] == "Disc" and len(st[2][1]) == 1 and "option::Option<" in B.local_ty(st[2][1][0]):
                    tested.add(st[2][1][0])
            t = bl["t"]
            if t[0] == "call" and re.search(r"option::Option::<.*>::(is_some|is_none)$", t[1]["f"].get("p") or "") and t[1].get("args"):
                a = t[1]["args"][0]
                if a[0] in ("C", "M") and len(a[1]) == 1:
                    tested.add(self.ref_target(B, a[1][0]) if self.ref_target(B, a[1][0]) is not None else a[1][0])
        grew = True
        while grew:
            grew = False
            for bl in blocks:
                for st in bl["s"]:
                    if st[0] == "A" and len(st[1]) == 1 and st[1][0] in tested and st[2][0] == "Use" and st[2][1][0] in ("C", "M") and len(st[2][1][1]) == 1 and st[2][1][1][0] not in tested:
                        tested.add(st[2][1][1][0])
                        grew = True
        self._tested_options = tested
        # boolean locals that are tested by more than one switch (directly or through a copy): only for those is the answer worth remembering
        def bool_chain(l):
            chain = [l]
            for _ in range(3):
                ds = B.defs.get(chain[-1], [])
                if len(ds) == 1 and ds[0][2] == "assign" and ds[0][3][2][0] == "Use" and ds[0][3][2][1][0] in ("C", "M") and len(ds[0][3][2][1][1]) == 1 \
                        and B.local_ty(ds[0][3][2][1][1][0]) == "bool":
                    chain.append(ds[0][3][2][1][1][0])
                else:
                    break
            return chain
        nsw = {}
        for bl in blocks:
            t = bl["t"]
            if t[0] == "switch" and t[1][0] in ("C", "M") and len(t[1][1]) == 1 and B.local_ty(t[1][1][0]) == "bool":
                src = bool_chain(t[1][1][0])[-1]
                nsw[src] = nsw.get(src, 0) + 1
        retested = {l for l, k in nsw.items() if k >= 2 and not any(d[2] == "assign" and d[3][2][0] == "Use" and d[3][2][1][0] == "K" for d in B.defs.get(l, []))}
        # path-sensitive exploration
        flags0 = ()
        start = (0, 0, 0, flags0)   # block, depth, min, flags
        seen = set()
        work = [start]
        steps = 0
        while work:
            bi, depth, mn, flags = work.pop()
            if (bi, depth, mn, flags) in seen:
                continue
            seen.add((bi, depth, mn, flags))
            steps += 1
            if steps > 200000:
                S.problems.append(("explosion", b["line"], "state space too large"))
                break
            bl = blocks[bi]
            fl = dict(flags)
            # closure effects are applied at the statement that creates them (before the terminator)
            for e in effects.get(bi, ()):
                if e[0] == "closure":
                    cs, clo, line = e[1], e[2], e[3]
                    if not cs.deltas <= {0}:
                        S.problems.append(("closure-unbalanced", line, "closure %s changes the depth of the captured scope by %s per call" % (clo, sorted(cs.deltas))))
                    if depth + cs.min < 0:
                        S.problems.append(("closure-underflow", line, "closure %s pops below the entry depth" % clo))
                    mn = min(mn, depth + cs.min)
                    if cs.writes0 and depth == 0:
                        for w in cs.writes0:
                            S.writes0.append(w)
                    for pr in cs.problems:
                        S.problems.append(pr)
            # statements: flag tracking
            for st in bl["s"]:
                if st[0] != "A":
                    continue
                self.flag_transfer(st, fl)
            t = bl["t"]
            dead = False
            if bi in effects:
                S.site_depth[bi] = min(S.site_depth.get(bi, depth), depth)
            for e in effects.get(bi, ()):
                if e[0] == "delta":
                    depth += e[1]
                    mn = min(mn, depth)
                    if abs(depth) > DEPTH_BOUND:
                        S.problems.append(("unbounded", e[2], "scope depth grows without bound along a loop (net effect of the loop body is not zero)"))
                        dead = True
                elif e[0] == "write":
                    if depth <= 0:
                        S.writes0.append((e[1], e[2]))
                elif e[0] == "callee":
                    cs, callee, line = e[1], e[2], e[3]
                    if cs.writes0 and depth <= 0:
                        for w in cs.writes0:
                            S.writes0.append((line, "%s via %s" % (w[1], callee.split("::")[-1])))
                    if depth + cs.min < mn:
                        mn = depth + cs.min
                    for pr in cs.problems:
                        if pr not in S.problems:
                            S.problems.append(pr)
                    ds = cs.deltas or {0}
                    for d in cs.err_deltas:
                        S.err_deltas.add(depth + d)
                    if len(ds) > 1:
                        # fork on the callee's possible net effects
                        for d in sorted(ds)[1:]:
                            self.push_succ(work, t, depth + d, min(mn, depth + d), fl, blocks)
                    depth += sorted(ds)[0]
                    mn = min(mn, depth)
                    if abs(depth) > DEPTH_BOUND:
                        S.problems.append(("unbounded", line, "scope depth grows without bound"))
                        dead = True
                elif e[0] == "unknown":
                    if (e[0], e[2], e[1]) not in S.problems:
                        S.problems.append(("unknown", e[2], e[1]))
            if dead:
                continue
            # terminator
            if t[0] == "call" and t[1].get("dest") and t[1]["dest"] == [0]:
                pth = t[1]["f"].get("p") or ""
                fl.pop(("r",), None)
                if pth.endswith("from_residual") or (t[1]["f"].get("o") or "").endswith("from_residual"):
                    fl[("r",)] = "Err"
            if t[0] == "call" and t[1].get("dest"):
                dl = t[1]["dest"][0]
                fl.pop(("l", dl), None)
                fl.pop(("disc", dl), None)
                for k in [k for k in fl if k[0] == "f" and k[1] == dl]:
                    fl.pop(k)
                pth = t[1]["f"].get("p") or ""
                args = t[1].get("args", [])
                if len(t[1]["dest"]) == 1 and args and args[0][0] in ("C", "M") and len(args[0][1]) == 1:
                    a0 = args[0][1][0]
                    if pth.endswith("IntoIterator>::into_iter") or pth.endswith("IntoIterator::into_iter"):
                        # a Range is its own iterator
                        for k in [k for k in list(fl) if k[0] == "f" and k[1] == a0]:
                            fl[("f", dl, k[2])] = fl[k]
                    elif re.search(r"option::Option::<.*>::(is_some|is_none)$", pth) and len(args) == 1:
                        # `x.is_some()` of an option whose variant is known on this path (None = 0, Some = 1)
                        tgt = self.ref_target(B, a0)
                        d = fl.get(("disc", tgt)) if tgt is not None else fl.get(("disc", a0))
                        if d in (0, 1):
                            fl[("l", dl)] = (d == 1) == pth.endswith("is_some")
                    elif re.search(r"(range::<impl .*Iterator for .*Range<.*>>|Iterator)::next$", pth):
                        # `for _ in 0..n` with known bounds: the loop is unrolled exactly
                        it = self.ref_target(B, a0)
                        s0, e0 = fl.get(("f", it, 0)), fl.get(("f", it, 1))
                        if it is not None and s0 is not None and e0 is not None and not isinstance(s0, bool) and not isinstance(e0, bool):
                            if s0 < e0:
                                fl[("disc", dl)] = 1
                                fl[("f", it, 0)] = s0 + 1 if s0 + 1 <= self.INT_BOUND else None
                                if fl[("f", it, 0)] is None:
                                    fl.pop(("f", it, 0))
                            else:
                                fl[("disc", dl)] = 0
            if t[0] == "ret":
                if fl.get(("r",)) == "Err":
                    S.err_deltas.add(depth)
                else:
                    S.deltas.add(depth)
                S.min = min(S.min, mn)
                continue
            if t[0] == "switch":
                v = self.operand_flag(t[1], fl)
                if v is not None:
                    tgt = None
                    for val, blk in t[2]:
                        if val == int(v):
                            tgt = blk
                    if tgt is None:
                        tgt = t[3]
                    work.append((tgt, depth, mn, tuple(sorted(fl.items()))))
                    continue
                # an unknown boolean local that is tested: each branch remembers the answer (`if !has_item { push } ... if !has_item { pop }` with has_item computed by a call)
                if t[1][0] in ("C", "M") and len(t[1][1]) == 1 and B.local_ty(t[1][1][0]) == "bool" and len(t[2]) == 1 and t[2][0][0] == 0 \
                        and bool_chain(t[1][1][0])[-1] in retested:
                    chain = bool_chain(t[1][1][0])
                    S.min = min(S.min, mn)
                    for val, tgt in ((False, t[2][0][1]), (True, t[3])):
                        f2 = dict(fl)
                        for l in chain:
                            f2[("l", l)] = val
                        work.append((tgt, depth, mn, tuple(sorted(f2.items()))))
                    continue
            S.min = min(S.min, mn)
            self.push_succ(work, t, depth, mn, fl, blocks)
        return S

    def ref_target(self, B, l):
        """local a `&mut` reference local points to (single definition `l = &mut x`)"""
        for _ in range(4):
            defs = B.defs.get(l, [])
            if not (len(defs) == 1 and defs[0][2] == "assign" and defs[0][3][2][0] == "Ref"):
                return None
            pl = defs[0][3][2][2]
            if len(pl) == 1:
                return pl[0]
            if len(pl) == 2 and pl[1] == "*":
                l = pl[0]          # reborrow `&mut *r`
                continue
            return None
        return None

    def push_succ(self, work, t, depth, mn, fl, blocks):
        for s in mirutil.normal_successors(t):
            work.append((s, depth, mn, tuple(sorted(fl.items()))))

    # ------------------------------------------------------------------ flags
    INT_BOUND = 12      # small counters only: larger values are forgotten so that the exploration stays finite

    def operand_flag(self, op, fl):
        if op[0] == "K":
            if len(op) > 3 and isinstance(op[3], int) and op[1] in ("const true", "const false", "true", "false"):
                return bool(op[3])
            if op[1] in ("const true", "true"):
                return True
            if op[1] in ("const false", "false"):
                return False
            if len(op) > 3 and isinstance(op[3], int) and not isinstance(op[3], bool) and re.match(r"^(const )?-?\d+_(u|i)(size|8|16|32|64)$", str(op[1])) and abs(op[3]) <= self.INT_BOUND:
                return int(op[3])
            return None
        if op[0] in ("C", "M"):
            pl = op[1]
            if len(pl) == 1:
                return fl.get(("l", pl[0]))
            if len(pl) == 2 and isinstance(pl[1], list) and pl[1][0] == ".":
                return fl.get(("f", pl[0], pl[1][1]))
        return None

    def flag_transfer(self, st, fl):
        dst, rv = st[1], st[2]
        if dst == [0]:
            fl.pop(("r",), None)
            if rv[0] == "Agg" and isinstance(rv[1], list) and rv[1][0] == "adt" and rv[1][1].endswith("::Result"):
                fl[("r",)] = rv[1][3]
        if len(dst) == 1:
            key = ("l", dst[0])
            # any assignment kills previous knowledge about the local and its fields
            fl.pop(key, None)
            fl.pop(("disc", dst[0]), None)
            for k in [k for k in fl if k[0] == "f" and k[1] == dst[0]]:
                fl.pop(k)
            if rv[0] == "Agg" and isinstance(rv[1], list) and rv[1][0] == "adt" and len(rv[1]) > 2 and isinstance(rv[1][2], int) and not isinstance(rv[1][2], bool) \
                    and str(rv[1][1]).endswith("option::Option") and dst[0] in getattr(self, "_tested_options", ()):
                fl[("disc", dst[0])] = rv[1][2]          # `x = Some(..)` / `x = None`: the variant is known until x is assigned again
            if rv[0] == "Use" and rv[1][0] in ("C", "M") and len(rv[1][1]) == 1 and ("disc", rv[1][1][0]) in fl and dst[0] in getattr(self, "_tested_options", ()):
                fl[("disc", dst[0])] = fl[("disc", rv[1][1][0])]
            if rv[0] == "Use":
                v = self.operand_flag(rv[1], fl)
                if v is not None:
                    fl[key] = v
            elif rv[0] == "Un" and rv[1] == "Not":
                v = self.operand_flag(rv[2], fl)
                if v is not None:
                    fl[key] = not v
            elif rv[0] == "Agg" and rv[1] == "tuple":
                for i, op in enumerate(rv[2]):
                    v = self.operand_flag(op, fl)
                    if v is not None:
                        fl[("f", dst[0], i)] = v
            elif rv[0] == "Bin" and rv[1] in ("BitAnd", "BitOr", "Eq", "Ne"):
                a = self.operand_flag(rv[2], fl)
                b2 = self.operand_flag(rv[3], fl)
                if a is not None and b2 is not None:
                    fl[key] = {"BitAnd": a and b2, "BitOr": a or b2, "Eq": a == b2, "Ne": a != b2}[rv[1]]
            elif rv[0] == "Bin" and rv[1] in ("Lt", "Le", "Gt", "Ge"):
                a = self.operand_flag(rv[2], fl)
                b2 = self.operand_flag(rv[3], fl)
                if a is not None and b2 is not None and not isinstance(a, bool) and not isinstance(b2, bool):
                    fl[key] = {"Lt": a < b2, "Le": a <= b2, "Gt": a > b2, "Ge": a >= b2}[rv[1]]
            elif rv[0] == "Bin" and rv[1] in ("Add", "Sub", "AddWithOverflow", "SubWithOverflow", "AddUnchecked", "SubUnchecked"):
                a = self.operand_flag(rv[2], fl)
                b2 = self.operand_flag(rv[3], fl)
                if a is not None and b2 is not None and not isinstance(a, bool) and not isinstance(b2, bool):
                    r = a + b2 if rv[1].startswith("Add") else a - b2
                    if 0 <= r <= self.INT_BOUND:
                        if rv[1].endswith("WithOverflow"):
                            fl[("f", dst[0], 0)] = r
                            fl[("f", dst[0], 1)] = False
                        else:
                            fl[key] = r
            elif rv[0] == "Agg" and isinstance(rv[1], list) and rv[1][0] == "adt" and rv[1][1] == "core::ops::range::Range" and len(rv[2]) == 2:
                for i, op in enumerate(rv[2]):
                    v = self.operand_flag(op, fl)
                    if v is not None and not isinstance(v, bool):
                        fl[("f", dst[0], i)] = v
            elif rv[0] == "Disc" and len(rv[1]) == 1:
                v = fl.get(("disc", rv[1][0]))
                if v is not None:
                    fl[key] = v
            if rv[0] == "Use" and rv[1][0] in ("C", "M") and len(rv[1][1]) == 1:
                # whole-value copy / move: what is known about the fields travels along
                src = rv[1][1][0]
                for k in [k for k in list(fl) if k[0] == "f" and k[1] == src]:
                    fl[("f", dst[0], k[2])] = fl[k]
        elif len(dst) == 2 and isinstance(dst[1], list) and dst[1][0] == ".":
            key = ("f", dst[0], dst[1][1])
            fl.pop(key, None)
            if rv[0] == "Use":
                v = self.operand_flag(rv[1], fl)
                if v is not None:
                    fl[key] = v
        else:
            # writes through pointers etc.: forget everything about the base local
            fl.pop(("l", dst[0]), None)
            fl.pop(("disc", dst[0]), None)


# ======================================================================================================
# Privacy of the scope parameter (R13.2): which bodies can be handed a scope whose top context the
# *caller* can observe (a caller-supplied scope at its entry depth)?
# ======================================================================================================
class Privacy:
    def __init__(self, F, G, A):
        self.F, self.G, self.A = F, G, A
        self.top = {}
        for n, b in F.bodies.items():
            t = n
            while F.bodies.get(t, {}).get("kind") == "closure" and F.bodies[t].get("parent") in F.bodies:
                t = F.bodies[t]["parent"]
            self.top[n] = t
        self.pool = self._pools()

    def _pools(self):
        """pool[f]: deferred closures that may be held by values f (or its nested closures) creates or obtains from local callees returning closures"""
        F, G = self.F, self.G
        created = defaultdict(set)
        for clo, creator in G.creator.items():
            if clo in G.deferred:
                created[self.top[creator]].add(clo)
        callees = defaultdict(set)
        for n in F.bodies:
            t = self.top[n]
            for kind, callee, bi, line in G.edges.get(n, ()):
                if kind in ("call", "trait") and callee in F.bodies:
                    b = F.bodies[callee]
                    rt = F.crates[b["_crate"]]["types"][b["locals"][0]]
                    if "dyn " in rt and "Fn" in rt:
                        callees[t].add(self.top[callee])
        pool = {t: set(v) for t, v in created.items()}
        changed = True
        while changed:
            changed = False
            for t, cs in callees.items():
                cur = pool.setdefault(t, set())
                for c in cs:
                    add = pool.get(c, set()) - cur
                    if add:
                        cur |= add
                        changed = True
        return pool

    def site_callees(self, name, bi):
        """possible callees of the call in block bi of body `name`, refined by the pool when the callee value is frame-local/captured"""
        F, G = self.F, self.G
        b = F.bodies[name]
        t = b["blocks"][bi]["t"]
        c = t[1]
        p = c["f"].get("p")
        k = c["f"].get("k")
        direct = [e[1] for e in G.edges.get(name, ()) if e[2] == bi and e[0] in ("call", "trait")]
        if direct:
            return direct, False
        dyn = [e[1] for e in G.edges.get(name, ()) if e[2] == bi and e[0] == "dyn"]
        if not dyn:
            return [], False
        B = mirutil.Body(F, b)
        roots = B.pointer_root(c["args"][0]) if c["args"] else set()
        local_value = bool(roots)
        for r in roots:
            if r[0] == "local":
                continue
            if r[0] == "param" and b["kind"] == "closure" and r[1] == 1:
                continue   # closure environment: captured value
            local_value = False
        if local_value:
            pl = self.pool.get(self.top[name], set())
            return [d for d in dyn if d in pl], False
        return dyn, True

    def passed_depth(self, creator, clo):
        """depth (relative to the creator's entry) of the scope an immediate closure is called with.  0 when the closure captures the scope or is called in place; when the
        closure takes the scope as its parameter and is handed, in the statement that creates it, to a local function that calls this parameter with its own scope argument after
        pushes of its own (`with_context(scope, ctx, |scope| ..)`), it is the depth at the handing site plus the depth at the helper's call of the parameter."""
        F, A = self.F, self.A
        b = F.bodies[creator]
        for bi, bl in enumerate(b["blocks"]):
            made = [st[1][0] for st in bl["s"] if st[0] == "A" and st[2][0] == "Agg" and isinstance(st[2][1], list) and st[2][1][0] == "closure" and st[2][1][1] == clo and len(st[1]) == 1]
            t = bl["t"]
            if not made or t[0] != "call":
                continue
            g = t[1]["f"].get("p")
            args = t[1].get("args", [])
            pos = [i for i, a in enumerate(args) if a[0] in ("C", "M") and len(a[1]) == 1 and a[1][0] in made]
            gs = A.summaries.get(g)
            if g not in F.bodies or gs is None or not pos or not gs.deltas <= {0}:
                return 0
            gb = F.bodies[g]
            inner = []
            for gi, gl in enumerate(gb["blocks"]):
                gt = gl["t"]
                if gt[0] != "call" or not re.search(r"ops::function::Fn(Once|Mut)?::call(_once|_mut)?$", gt[1]["f"].get("p") or "") or not gt[1].get("args"):
                    continue
                a0 = gt[1]["args"][0]
                GB = mirutil.Body(F, gb)
                l = a0[1][0] if a0[0] in ("C", "M") and len(a0[1]) == 1 else None
                for _ in range(4):
                    ds = GB.defs.get(l, []) if l is not None else []
                    if len(ds) == 1 and ds[0][2] == "assign" and ds[0][3][2][0] in ("Use", "Ref"):
                        src = ds[0][3][2][1] if ds[0][3][2][0] == "Use" else ("C", ds[0][3][2][2])
                        l = src[1][0] if src[0] in ("C", "M") and len(src[1]) in (1, 2) else None
                    else:
                        break
                if l is not None and l == pos[0] + 1 and gi in gs.site_depth:
                    inner.append(gs.site_depth[gi])
            if not inner:
                return 0
            outer = A.summaries[creator].site_depth.get(bi, 0) if creator in A.summaries else 0
            return outer + min(inner)
        return 0

    def compute(self, api_roots):
        """private[body] for every body that touches an external scope"""
        F, A = self.F, self.A
        touching = [n for n, s in A.summaries.items() if s.touches]
        private = {n: True for n in touching}
        reason = {}
        for n in api_roots:
            if n in private:
                private[n] = False
                reason[n] = "public entry point: its scope argument is supplied by the caller"
        # evaluator closures handed out by a public function (`pub fn build_..(..) -> Evaluator`) can be called by anybody with any scope
        for t, clos in self.pool.items():
            b = F.bodies.get(t)
            if b is None or b.get("vis") != "pub" or b["kind"] == "closure":
                continue
            rt = F.crates[b["_crate"]]["types"][b["locals"][0]]
            if "dyn " in rt and "Fn" in rt and "Scope" in rt:
                for c in clos:
                    if c in private and private[c]:
                        private[c] = False
                        reason[c] = "evaluator closure returned by the public function %s: callable with a caller-supplied scope" % t
        # edges: caller -> callee for sites passing the external scope at depth 0
        sites = []
        for n in touching:
            s = A.summaries[n]
            for bi, depth in s.site_depth.items():
                t = F.bodies[n]["blocks"][bi]["t"]
                if t[0] != "call":
                    continue
                cal, fallback = self.site_callees(n, bi)
                for c in cal:
                    if c in private:
                        sites.append((n, c, depth, t[1].get("line"), fallback))
            # immediate closures capturing the scope inherit the creator's privacy at the creation depth
        for clo, creator in self.G.creator.items():
            if clo in private and creator in private and clo not in self.G.deferred:
                sites.append((creator, clo, self.passed_depth(creator, clo), F.bodies[clo].get("line"), False))
        changed = True
        while changed:
            changed = False
            for caller, callee, depth, line, fallback in sites:
                if depth <= 0 and not private[caller] and private[callee]:
                    private[callee] = False
                    reason[callee] = "called from %s (line %s) with the caller-visible scope at entry depth%s" % (caller, line, " [signature fallback]" if fallback else "")
                    changed = True
        return private, reason, sites
