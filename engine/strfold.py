#!/usr/bin/env python3
"""Abstract string domain for the folding engine (hireval, ints mode): a string is a sequence of *atoms*

  ("c", text)          literal text
  ("d", name[, len])   an opaque, non-empty run of decimal digits of symbolic length ("sym", "|name|") (or of the given length); its value as an integer is ("sym", name)
  ("z", k)             the digit 0 repeated k times (k: literal / symbol / linear form of hireval)
  ("sgn",)             the minus sign of the number (text "-"), kept apart so that its position in the result can be judged

and the value ("str", [atoms]).  `hook(ev)` returns a call hook that implements, as transfer functions, the str / String / iterator operations with which
text is cut into pieces and put together again (contains, split, split_once, next, unwrap, len, parse / from_str, (a..b).map(|_| "0").collect(), repeat,
format!, push_str, push, insert_str, +, strip_prefix, starts_with, trim_start_matches, slicing off a constant prefix).  Nothing is executed: a digit segment
stays a symbol, lengths and counts are linear forms.  An operation outside the list stays an opaque ("call", ..) value - the caller then reports UNDECIDED."""
import re

from hireval import mk_bool

SOME = lambda x: ("v", "Some", [x])
NONE = ("v", "None", [])


def mk(atoms):
    out = []
    for a in atoms:
        if a[0] == "c":
            if not a[1]:
                continue
            if out and out[-1][0] == "c":
                out[-1] = ("c", out[-1][1] + a[1])
                continue
        if a[0] == "z" and a[1] == ("lit", 0):
            continue
        out.append(a)
    return ("str", out)


def lit_norm(v, depth=0):
    if depth > 6 or not isinstance(v, tuple) or not v:
        return v
    if v[0] == "str":
        if all(a[0] == "c" for a in v[1]):
            return ("lit", "".join(a[1] for a in v[1]))
        return v
    if v[0] == "v" and len(v) == 3 and isinstance(v[2], list):
        return ("v", v[1], [lit_norm(x, depth + 1) for x in v[2]])
    if v[0] in ("tuple", "array", "iterv", "pieces") and len(v) > 1 and isinstance(v[1], list):
        return (v[0], [lit_norm(x, depth + 1) for x in v[1]]) + tuple(v[2:])
    return v


def is_str(v):
    return isinstance(v, tuple) and v and v[0] == "str"


def as_str(v):
    """abstract string of a value: str value, string / char literal"""
    if is_str(v):
        return v
    if isinstance(v, tuple) and v[0] == "lit" and isinstance(v[1], str):
        return mk([("c", v[1])])
    return None


def text_of(a):
    return "-" if a[0] == "sgn" else a[1] if a[0] == "c" else None


def flat(atoms):
    """atoms with literal text (and the sign) broken into single characters: [("ch", c, is_sign) | atom]"""
    out = []
    for a in atoms:
        if a[0] == "c":
            out += [("ch", ch, False) for ch in a[1]]
        elif a[0] == "sgn":
            out.append(("ch", "-", True))
        else:
            out.append(a)
    return out


def unflat(items):
    out = []
    for x in items:
        if x[0] == "ch":
            out.append(("sgn",) if x[2] else ("c", x[1]))
        else:
            out.append(x)
    return mk(out)


def find_pat(items, pat):
    """index of the first occurrence of the literal pattern in a flattened atom list; digit segments and zero runs contain digits only, so a pattern with a
    non-digit character cannot overlap them.  None: no occurrence; -1: cannot tell (an all-digit pattern)"""
    if not pat:
        return -1
    if all(ch.isdigit() for ch in pat):
        return -1
    n = len(pat)
    for i in range(len(items) - n + 1):
        if all(items[i + j][0] == "ch" and items[i + j][1] == pat[j] for j in range(n)):
            return i
    return None


def split_all(items, pat):
    pieces, cur, i, n = [], [], 0, len(pat)
    while i < len(items):
        if i + n <= len(items) and all(items[i + j][0] == "ch" and items[i + j][1] == pat[j] for j in range(n)):
            pieces.append(cur)
            cur = []
            i += n
        else:
            cur.append(items[i])
            i += 1
    pieces.append(cur)
    return [unflat(p) for p in pieces]


class StrFold:
    def __init__(self, ev):
        self.ev = ev
        self.unknown = []          # operations on abstract strings that were not folded
        self.panics = []           # unwrap / expect applied to a None / Err value on some folded path
        self.preconditions = []    # counts assumed non-negative

    # -------------------------------------------------------------- lengths and numbers
    def length(self, s):
        tot = ("lit", 0)
        for a in s[1]:
            if a[0] in ("c",):
                k = ("lit", len(a[1]))
            elif a[0] == "sgn":
                k = ("lit", 1)
            elif a[0] == "d":
                k = a[2] if len(a) > 2 else ("sym", "|%s|" % a[1])
            else:
                k = a[1]
            tot = self.ev.binop("+", tot, k)
        return tot

    def int_of(self, s):
        """integer value of a string that is one digit segment (or literal digits)"""
        at = s[1]
        if len(at) == 1 and at[0][0] == "d":
            return ("sym", at[0][1])
        if len(at) == 1 and at[0][0] == "c" and at[0][1].isdigit():
            return ("lit", int(at[0][1]))
        return None

    # -------------------------------------------------------------- format!
    @staticmethod
    def decode_template(v):
        m = re.match(r"^ByteStr\(\[([0-9, ]*)\]", str(v))
        if not m:
            return None
        bs = [int(x) for x in m.group(1).split(",") if x.strip()]
        out, i = [], 0
        while i < len(bs):
            b = bs[i]
            if b == 0:
                break
            if b == 192:
                out.append(None)
                i += 1
            elif b < 128:
                out.append(bytes(bs[i + 1:i + 1 + b]).decode("utf-8", "replace"))
                i += 1 + b
            elif b == 128 and i + 2 < len(bs):
                n = bs[i + 1] | (bs[i + 2] << 8)
                out.append(bytes(bs[i + 3:i + 3 + n]).decode("utf-8", "replace"))
                i += 3 + n
            elif b > 192:
                # placeholder with options (library/core/src/fmt/mod.rs): bit 0 flags (u32), bit 1 width (u16), bit 2 precision (u16), bit 3 argument index (u16),
                # bits 4 / 5 width / precision taken from an argument; all little endian
                i += 1
                ph = {"flags": None, "width": None, "precision": None, "index": None, "indirect": bool(b & 0x30)}
                if b & 1:
                    ph["flags"] = bs[i] | (bs[i + 1] << 8) | (bs[i + 2] << 16) | (bs[i + 3] << 24)
                    i += 4
                for bit, nm in ((2, "width"), (4, "precision"), (8, "index")):
                    if b & bit:
                        ph[nm] = bs[i] | (bs[i + 1] << 8)
                        i += 2
                out.append(ph)
            else:
                return "?"
        return out

    def format_value(self, a):
        """value of alloc::fmt::format(<Arguments>) / of an Arguments value: abstract string or None"""
        if not (isinstance(a, tuple) and a[0] == "call" and isinstance(a[1], str)):
            return None
        c = a[1]
        if "fmt::Arguments" in c and c.endswith("::from_str") and a[2]:
            return as_str(a[2][0])
        if "fmt::Arguments" in c and (c.endswith("::new") or c.endswith("::new_const") or c.endswith("::new_v1")) and a[2]:
            tpl = a[2][0]
            if isinstance(tpl, tuple) and tpl[0] == "lit" and str(tpl[1]).startswith("ByteStr("):
                t = self.decode_template(tpl[1])
                if t is None or t == "?":
                    return None
                args = a[2][1] if len(a[2]) > 1 else ("array", [])
                vals = []
                raw = []
                if args[0] == "array" and len(args) > 1:
                    for x in args[1]:
                        if isinstance(x, tuple) and x[0] == "call" and str(x[1]).endswith("::new_display") and x[2]:
                            vals.append(as_str(x[2][0]))
                        else:
                            vals.append(None)
                        raw.append(x)
                out, k = [], 0
                for piece in t:
                    if piece is None:
                        if k >= len(vals) or vals[k] is None:
                            return None
                        out += vals[k][1]
                        k += 1
                    elif isinstance(piece, dict):
                        # placeholder with options: decided for an integer literal rendered decimal / hexadecimal with a fixed width
                        idx = piece["index"] if piece["index"] is not None else k
                        k = idx + 1
                        if piece["indirect"] or piece["precision"] is not None or idx >= len(raw):
                            return None
                        x = raw[idx]
                        if not (isinstance(x, tuple) and x[0] == "call" and x[2] and isinstance(x[2][0], tuple) and x[2][0][0] == "lit" and isinstance(x[2][0][1], int)
                                and not isinstance(x[2][0][1], bool)):
                            return None
                        kind = str(x[1]).rsplit("::", 1)[-1]
                        if kind not in ("new_display", "new_lower_hex", "new_upper_hex"):
                            return None
                        val = x[2][0][1]
                        if val < 0 and kind != "new_display":
                            return None                        # two's complement rendering of negative numbers: not modelled
                        fl = piece["flags"] if piece["flags"] is not None else (0x20 | (3 << 29))
                        if fl & (1 << 23):
                            return None                        # alternate form: not modelled
                        sign = "-" if val < 0 else ("+" if fl & (1 << 21) else "")
                        digits = {"new_display": "%d", "new_lower_hex": "%x", "new_upper_hex": "%X"}[kind] % abs(val)
                        width = piece["width"] or 0
                        align = (fl >> 29) & 3
                        if fl & (1 << 24):
                            txt = sign + digits.rjust(max(0, width - len(sign)), "0")      # sign-aware zero padding: the sign comes first
                        else:
                            txt = sign + digits
                            if len(txt) < width:
                                pad = chr(fl & 0x1FFFFF) * (width - len(txt))
                                if align in (1, 3):
                                    txt = pad + txt              # numbers are right-aligned by default
                                elif align == 0:
                                    txt = txt + pad
                                else:
                                    return None
                        out.append(("c", txt))
                    else:
                        out.append(("c", piece))
                return mk(out)
            if isinstance(tpl, tuple) and tpl[0] == "array" and len(tpl) > 1 and all(as_str(x) is not None for x in tpl[1]) and len(a[2]) == 1:
                return mk([y for x in tpl[1] for y in as_str(x)[1]])
        return None

    # -------------------------------------------------------------- the hook
    def hook(self, callee, args, s):
        """the call hook proper; a text that consists of literal characters only is handed back as a plain string literal, so that literal patterns
        (`matches!(part, "." | "/")`) and the evaluator's own comparisons apply to it"""
        r = self._hook(callee, args, s)
        if isinstance(r, dict):
            return {"env": {k: lit_norm(v) for k, v in r.get("env", {}).items()}, "val": lit_norm(r.get("val"))}
        return lit_norm(r)

    def _hook(self, callee, args, s):
        ev = self.ev
        c = callee or ""
        m = c.split("::")[-1]
        a0 = args[0] if args else None
        if a0 is not None and m in ("from_str", "parse", "as_str", "len", "is_empty") and isinstance(a0, tuple) and a0[0] in ("array", "iterv") and len(a0) > 1 and isinstance(a0[1], list) \
                and a0[1] and all(isinstance(x, tuple) and x[0] == "lit" and isinstance(x[1], str) and len(x[1]) == 1 for x in a0[1]) and ("str" in c or "String" in c):
            a0 = ("lit", "".join(x[1] for x in a0[1]))           # characters collected into a String
            args = [a0] + list(args[1:])
        s0 = as_str(a0) if a0 is not None else None
        # ---- constructors
        if c in ("alloc::string::String::new",) and not args:
            return mk([])
        if c == "alloc::fmt::format" and args:
            r = self.format_value(a0)
            if r is not None:
                return r
            self.unknown.append("format! with arguments that are not abstract strings")
            return None
        if m in ("from", "to_string", "to_owned", "into", "as_str", "as_ref", "borrow", "clone", "deref", "as_mut_str") and len(args) == 1 and is_str(a0) and \
                ("String" in c or "str" in c or "From" in c or "Into" in c or "ToString" in c or "ToOwned" in c or "Clone" in c or "Deref" in c or "AsRef" in c or "Borrow" in c):
            return a0
        if m == "unwrap" or m == "expect":
            if a0 is not None and a0[0] == "v" and a0[1] in ("Some", "Ok") and a0[2]:
                return a0[2][0]
            if a0 is not None and a0[0] == "v" and a0[1] in ("None", "Err"):
                self.panics.append("%s on %s" % (m, a0[1]))
            else:
                self.unknown.append("%s on a value that is not known to be Some / Ok" % m)
            return None
        # ---- saturating / checked arithmetic on lengths and counts (the count is assumed not to go below zero: recorded as a precondition)
        if m in ("saturating_sub", "wrapping_sub") and len(args) == 2 and "core::num::" in c and ev.as_lin(a0) is not None and ev.as_lin(args[1]) is not None:
            r = ev.binop("-", a0, args[1])
            if r[0] != "lit":
                self.preconditions.append(r)
            elif r[1] < 0 and m == "saturating_sub":
                return ("lit", 0)
            return r
        if m in ("checked_sub",) and len(args) == 2 and "core::num::" in c and ev.as_lin(a0) is not None and ev.as_lin(args[1]) is not None:
            r = ev.binop("-", a0, args[1])
            if r[0] != "lit":
                self.preconditions.append(r)
                return SOME(r)
            return SOME(r) if r[1] >= 0 else NONE
        # ---- iterators over pieces
        if a0 is not None and a0[0] == "pieces":
            if m == "next":
                lst, i = a0[1], a0[2]
                val = SOME(lst[i]) if i < len(lst) else NONE
                if ev.recv_local:
                    return {"env": {ev.recv_local: ("pieces", lst, min(i + 1, len(lst)))}, "val": val}
                return None
            if m in ("last",):
                return SOME(a0[1][-1]) if a0[1][a0[2]:] else NONE
            if m == "count":
                return ("lit", len(a0[1]) - a0[2])
            if m in ("collect",):
                return ("array", list(a0[1][a0[2]:]))
            if m == "nth" and len(args) == 2 and args[1][0] == "lit":
                i = a0[2] + args[1][1]
                return SOME(a0[1][i]) if i < len(a0[1]) else NONE
        # ---- join of a concrete sequence of texts
        if m in ("join", "concat") and a0 is not None and a0[0] in ("array", "iterv") and isinstance(a0[1], list) and all(as_str(x) is not None for x in a0[1]):
            sep = as_str(args[1]) if len(args) > 1 else mk([])
            if sep is not None:
                out = []
                for i, x in enumerate(a0[1]):
                    if i:
                        out += sep[1]
                    out += as_str(x)[1]
                return mk(out)
        if m in ("with_capacity",) and "String" in c:
            return mk([])
        # ---- zero runs:  (a..b).map(|_| "0").collect::<String>()   "0".repeat(k)
        if m == "map" and len(args) == 2 and a0 is not None and a0[0] == "range" and args[1][0] == "closure" and len(args[1]) == 4:
            return ("mapped", a0, args[1])
        if m == "collect" and a0 is not None and a0[0] == "mapped":
            rng, clo = a0[1], a0[2]
            outs = list(ev.apply_closure(clo, [("sym", "_i")], s))
            if len(outs) == 1:
                el = as_str(outs[0][1])
                if el is not None and len(el[1]) == 1 and el[1][0][0] == "c":
                    cnt = ev.binop("-", rng[2], rng[1])
                    if rng[3]:
                        cnt = ev.binop("+", cnt, ("lit", 1))
                    return self.repeat(el[1][0][1], cnt)
            self.unknown.append("collect over a mapped range whose element is not a constant")
            return None
        if m == "repeat" and len(args) == 2 and s0 is not None and len(s0[1]) == 1 and s0[1][0][0] == "c":
            return self.repeat(s0[1][0][1], args[1])
        if a0 is not None and a0[0] == "charseq":
            if m in ("all", "any") and len(args) == 2 and args[1][0] == "closure" and len(args[1]) == 4:
                res = []
                for it in a0[1]:
                    el = ("lit", it[1]) if it[0] == "ch" else ("digitchar",)
                    outs = list(ev.apply_closure(args[1], [el], s))
                    if len(outs) != 1 or outs[0][1][0] != "bool":
                        self.unknown.append("%s over characters: the predicate does not fold" % m)
                        return None
                    res.append(outs[0][1][1])
                return mk_bool(all(res) if m == "all" else any(res))
            if m == "count" and len(args) == 1:
                return self.length(unflat(a0[1]))
            if m in ("rev", "peekable", "by_ref") and len(args) == 1:
                return ("charseq", list(reversed(a0[1])) if m == "rev" else a0[1])
            if m == "next" and ev.recv_local:
                if a0[1] and a0[1][0][0] == "ch":
                    return {"env": {ev.recv_local: ("charseq", a0[1][1:])}, "val": SOME(("lit", a0[1][0][1]))}
                if not a0[1]:
                    return NONE
                return None
        if a0 is not None and (a0 == ("digitchar",) or (a0[0] == "lit" and isinstance(a0[1], str) and len(a0[1]) == 1)) and len(args) == 1 and ("char" in c or "u8" in c):
            ch = None if a0 == ("digitchar",) else a0[1]
            pred = {"is_ascii_digit": lambda x: x.isdigit() and x.isascii(), "is_numeric": lambda x: x.isdigit(), "is_ascii_alphabetic": lambda x: x.isalpha() and x.isascii(),
                    "is_alphabetic": lambda x: x.isalpha(), "is_whitespace": lambda x: x.isspace(), "is_ascii_whitespace": lambda x: x.isspace(),
                    "is_ascii_punctuation": lambda x: x.isascii() and not x.isalnum() and not x.isspace(), "is_alphanumeric": lambda x: x.isalnum(), "is_ascii_alphanumeric": lambda x: x.isalnum() and x.isascii()}.get(m)
            if pred is not None:
                return mk_bool(pred(ch if ch is not None else "7"))
        if s0 is None:
            return None
        # ---- write!(text, ..): appends, or poisons the accumulator when the format cannot be folded (never a silent no-op)
        if m == "write_fmt" and len(args) == 2 and ev.recv_local:
            r = self.format_value(args[1])
            if r is not None:
                return {"env": {ev.recv_local: mk(s0[1] + r[1])}, "val": ("v", "Ok", [("unit",)])}
            self.unknown.append("write_fmt")
            return {"env": {ev.recv_local: ("unknown", "text written by a format the folding does not follow")}, "val": ("v", "Ok", [("unit",)])}
        # ---- equality of texts
        if m in ("eq", "ne") and len(args) == 2 and as_str(args[1]) is not None:
            r = self.equal(s0, as_str(args[1]))
            if r is None:
                self.unknown.append("comparison of %s with %s" % (render(s0), render(as_str(args[1]))))
                return None
            return mk_bool(r == (m == "eq"))
        if not (("str" in c) or ("String" in c) or ("string" in c)):
            return None
        pat = args[1][1] if len(args) > 1 and isinstance(args[1], tuple) and args[1][0] == "lit" and isinstance(args[1][1], str) else None
        items = flat(s0[1])
        # ---- fully literal text: the operation is computed on the text itself
        if all(a[0] in ("c", "sgn") for a in s0[1]):
            txt = "".join(text_of(a) for a in s0[1])
            cs = args[1] if len(args) == 2 and isinstance(args[1], tuple) and args[1][0] in ("array", "iterv") and isinstance(args[1][1], list) else None
            if cs is not None and all(x[0] == "lit" and isinstance(x[1], str) and len(x[1]) == 1 for x in cs[1]) and m in ("trim_start_matches", "trim_end_matches", "trim_matches"):
                chars = "".join(x[1] for x in cs[1])
                return mk([("c", {"trim_start_matches": txt.lstrip, "trim_end_matches": txt.rstrip, "trim_matches": txt.strip}[m](chars))])
            if pat is not None and len(args) == 2:
                conc = {"trim_start_matches": lambda: txt.lstrip(pat) if len(pat) == 1 else None, "trim_end_matches": lambda: txt.rstrip(pat) if len(pat) == 1 else None,
                        "contains": lambda: pat in txt, "starts_with": lambda: txt.startswith(pat), "ends_with": lambda: txt.endswith(pat),
                        "strip_suffix": lambda: (SOME(mk([("c", txt[:-len(pat)])])) if txt.endswith(pat) else NONE)}.get(m)
                if conc is not None:
                    r = conc()
                    if isinstance(r, bool):
                        return mk_bool(r)
                    if isinstance(r, str):
                        return mk([("c", r)])
                    if r is not None:
                        return r
            if len(args) == 1:
                conc = {"trim": lambda: txt.strip(), "trim_start": lambda: txt.lstrip(), "trim_end": lambda: txt.rstrip(), "to_lowercase": lambda: txt.lower(), "to_uppercase": lambda: txt.upper()}.get(m)
                if conc is not None:
                    return mk([("c", conc())])
        # ---- characters
        if m in ("bytes", "chars") and len(args) == 1:
            if all(x[0] == "ch" for x in items) and m == "chars":
                return ("iterv", [("lit", x[1]) for x in items])       # a literal text: its characters are a concrete sequence
            return ("charseq", items)
        # ---- queries
        if m == "len" and len(args) == 1:
            return self.length(s0)
        if m == "is_empty" and len(args) == 1:
            return mk_bool(not s0[1])
        if m == "contains" and pat is not None:
            i = find_pat(items, pat)
            if i == -1:
                self.unknown.append("contains(%r) on digits" % pat)
                return None
            return mk_bool(i is not None)
        if m == "starts_with" and pat is not None:
            if len(items) >= len(pat) and all(items[j][0] == "ch" for j in range(len(pat))):
                return mk_bool(all(items[j][1] == pat[j] for j in range(len(pat))))
            if items and items[0][0] in ("d", "z") and not pat[0].isdigit():
                return mk_bool(False)
            if not items:
                return mk_bool(False)
            self.unknown.append("starts_with(%r)" % pat)
            return None
        if m == "find" and pat is not None:
            i = find_pat(items, pat)
            if i == -1:
                return None
            if i is None:
                return NONE
            return SOME(self.length(unflat(items[:i])))
        # ---- cutting
        if m in ("split", "splitn", "split_terminator") and pat is not None and len(args) == 2:
            if find_pat(items, pat) == -1:
                return None
            return ("pieces", split_all(items, pat), 0)
        if m == "split_once" and pat is not None:
            i = find_pat(items, pat)
            if i == -1:
                return None
            if i is None:
                return NONE
            return SOME(("tuple", [unflat(items[:i]), unflat(items[i + len(pat):])]))
        if m == "strip_prefix" and pat is not None:
            if len(items) >= len(pat) and all(items[j][0] == "ch" and items[j][1] == pat[j] for j in range(len(pat))):
                return SOME(unflat(items[len(pat):]))
            if not items or items[0][0] == "ch" or not pat[0].isdigit():
                return NONE
            return None
        if m == "trim_start_matches" and pat is not None and len(pat) == 1 and not pat.isdigit():
            j = 0
            while j < len(items) and items[j][0] == "ch" and items[j][1] == pat:
                j += 1
            return unflat(items[j:])
        if m == "replace" and pat is not None and len(args) == 3 and as_str(args[2]) is not None:
            if find_pat(items, pat) == -1:
                return None
            ps = split_all(items, pat)
            out = []
            for k, p in enumerate(ps):
                if k:
                    out += as_str(args[2])[1]
                out += p[1]
            return mk(out)
        # ---- building
        if m in ("push_str", "push") and len(args) == 2 and as_str(args[1]) is not None and ev.recv_local:
            return {"env": {ev.recv_local: mk(s0[1] + as_str(args[1])[1])}, "val": ("unit",)}
        if m in ("insert_str", "insert") and len(args) == 3 and args[1] == ("lit", 0) and as_str(args[2]) is not None and ev.recv_local:
            return {"env": {ev.recv_local: mk(as_str(args[2])[1] + s0[1])}, "val": ("unit",)}
        if m == "add" and len(args) == 2 and as_str(args[1]) is not None:
            return mk(s0[1] + as_str(args[1])[1])
        # ---- numbers
        if (m in ("from_str", "parse")) and len(args) == 1 and re.search(r"(usize|u64|u32|i64|i32|isize|u16|i16|u128|i128)", c + " " + str(ev_ty(ev, c))):
            v = self.int_of(s0)
            if v is not None:
                return ("v", "Ok", [v])
            return None
        self.unknown.append("%s on an abstract string" % m)
        return None

    def equal(self, a, b):
        """True / False / None: identical atoms are equal; two literal texts are compared; a non-zero leading digit differs from the text "0"; different constant lengths differ"""
        if a[1] == b[1]:
            return True
        la, lb = all(x[0] in ("c", "sgn") for x in a[1]), all(x[0] in ("c", "sgn") for x in b[1])
        if la and lb:
            return "".join(text_of(x) for x in a[1]) == "".join(text_of(x) for x in b[1])
        na, nb = self.length(a), self.length(b)
        if na[0] == "lit" and nb[0] == "lit" and na[1] != nb[1]:
            return False
        for x, y in ((a, b), (b, a)):
            if len(x[1]) == 1 and x[1][0][0] == "d" and len(x[1][0]) > 3 and x[1][0][3] == "nz" and all(t[0] == "c" for t in y[1]) and "".join(t[1] for t in y[1]).strip("0") == "":
                return False
            # a text containing a character the other cannot contain
            fx, fy = flat(x[1]), flat(y[1])
            if all(t[0] == "ch" for t in fy):
                lits = {t[1] for t in fx if t[0] == "ch" and not t[1].isdigit()}
                if lits - {t[1] for t in fy}:
                    return False
        return None

    def repeat(self, text, cnt):
        if text == "0":
            if not (cnt[0] == "lit" and cnt[1] >= 0):
                self.preconditions.append(cnt)
            if cnt[0] == "lit" and cnt[1] <= 0:
                return mk([])
            if cnt[0] == "lit" and cnt[1] <= 10000:
                return mk([("c", "0" * cnt[1])])
            return mk([("z", cnt)])
        if cnt[0] == "lit":
            return mk([("c", text * max(0, cnt[1]))])
        return None


def ev_ty(ev, c):
    """type of the call expression being folded (`text.parse()` names its target only in the type of the result)"""
    return getattr(ev, "cur_ty", "") or ""


# ====================================================================================================== numeric reading of an abstract string
def numeric_value(ev, s):
    """(problems, sign_present, digit sequence, exponent) of a string meant as plain decimal text.  The digit sequence lists ("D", name) / ("0", count) /
    ("k", digit) with leading and trailing zero runs removed; exponent is a linear form: value = digits * 10^exponent"""
    probs = []
    items = flat(s[1])
    sign = False
    for i, x in enumerate(items):
        if x[0] == "ch" and x[1] == "-":
            if i == 0:
                sign = True
            else:
                probs.append("a minus sign at position %d of the text, behind %s" % (i, render(unflat(items[:i]))))
    body = [x for x in items if not (x[0] == "ch" and x[1] == "-")]
    seq, frac_len, seen_point = [], ("lit", 0), False
    for x in body:
        if x[0] == "ch" and x[1] == ".":
            if seen_point:
                probs.append("two decimal points")
            seen_point = True
            continue
        if x[0] == "ch" and x[1].isdigit():
            el, ln = (("0", ("lit", 1)) if x[1] == "0" else ("k", x[1])), ("lit", 1)
        elif x[0] == "ch":
            probs.append("the character %r" % x[1])
            continue
        elif x[0] == "d":
            el, ln = ("D", x[1]), (x[2] if len(x) > 2 else ("sym", "|%s|" % x[1]))
        elif x[0] == "z":
            el, ln = ("0", x[1]), x[1]
        else:
            probs.append("an unknown piece %r" % (x,))
            continue
        seq.append(el)
        if seen_point:
            frac_len = ev.binop("+", frac_len, ln)
    if seen_point and frac_len == ("lit", 0):
        probs.append("a decimal point without fraction digits")
    if not seq:
        probs.append("no digits")
    if seen_point and body and body[0][0] == "ch" and body[0][1] == ".":
        probs.append("no digit before the decimal point")
    exp = ev.binop("-", ("lit", 0), frac_len)
    while seq and seq[0][0] == "0" and len(seq) > 1:
        seq.pop(0)
    while seq and seq[-1][0] == "0" and len(seq) > 1:
        exp = ev.binop("+", exp, seq[-1][1])
        seq.pop()
    return probs, sign, seq, exp


def render(s):
    out = ""
    for a in s[1]:
        if a[0] == "c":
            out += a[1]
        elif a[0] == "sgn":
            out += "-"
        elif a[0] == "d":
            out += "<%s>" % a[1]
        elif a[0] == "z":
            out += "<0 x %s>" % render_lin(a[1])
    return out


def render_lin(v):
    if v[0] == "lit":
        return str(v[1])
    if v[0] == "sym":
        return v[1]
    if v[0] == "lin":
        parts = []
        for n, c in v[1]:
            parts.append(("%s" % n) if c == 1 else ("-%s" % n) if c == -1 else "%d*%s" % (c, n))
        if v[2]:
            parts.append(str(v[2]))
        return "+".join(parts).replace("+-", "-")
    return "?"
