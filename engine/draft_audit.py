#!/usr/bin/env python3
"""development helper: list the undischarged panic sites of a report with source context and the guards currently in force"""
import json, linecache, sys, re
pid = sys.argv[1]
tier = sys.argv[2] if len(sys.argv) > 2 else "quick"
r = json.load(open('/verif/.cache/reports/%s-%s.json' % (pid, tier)))
last = None
for v in r['violations']:
    if not v['rule'].endswith('.1') or 'coverage' in v['key']:
        continue
    key = v['key']
    where = v['where'] or ''
    f, _, ln = where.rpartition(':')
    guards = re.search(r"guards in force: (\[.*?\])\)", v['msg'])
    fn = key.split('|')[0]
    if fn != last:
        print("\n### %s" % fn)
        last = fn
    try:
        ln = int(ln)
        src = linecache.getline('/repo/' + f, ln).rstrip()
    except Exception:
        src = ''
    print("KEY %s\n    %s:%s  %s\n    guards=%s" % (key, f.split('/')[-1], ln, src.strip()[:150], guards.group(1) if guards else ''))
