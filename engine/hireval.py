#!/usr/bin/env python3
"""Symbolic partial evaluator over type-checked HIR trees (G6: decision-table extraction).

It does not run the analysed code: it folds `match`/`if let`/`if` over *abstract* operands
(a Value of known variant with symbolic payload, a known boolean, an opaque symbol) and
returns, per path, the normal form of the result.  Unknown conditions fork.

Abstract values (tuples):
  ("v", Variant, [fields])     enum value of a known variant (Value::X(..), Option, Ordering, ...)
  ("bool", True|False)
  ("sym", name)                opaque symbol
  ("cmp", op, a, b)            op in  < <= == !=   (>, >= are canonicalised by swapping)
  ("and", a, b) ("or", a, b) ("not", a)
  ("ord", a, b)                a.cmp(b)
  ("call", callee, [args])     opaque call
  ("payload", i, x)            i-th field of x when x's variant was learned on a forked path
  ("ite", c, a, b)
  ("unit",) ("unknown", why)
"""
import re

TRANSPARENT_METHODS = {"borrow", "deref", "clone", "as_ref", "to_owned", "as_str", "into", "as_vec", "to_string", "as_slice", "unwrap_ref"}
VALUE = "dmntk_feel::values::Value::"


def strip_k(e):
    while isinstance(e, dict) and e.get("k") in ("AddrOf", "DropTemps", "Paren") and isinstance(e.get("e"), dict):
        e = e["e"]
    return e if isinstance(e, dict) else {}


def _alphabetic(ch):
    """Unicode `Alphabetic` as far as the general category decides it: letters and letter numbers are, symbols / punctuation / separators / format characters are not;
    marks and other numbers depend on Other_Alphabetic, which Python's tables do not carry -> None (unknown)"""
    import unicodedata
    cat = unicodedata.category(ch)
    if cat[0] == "L" or cat == "Nl":
        return True
    if cat[0] in ("S", "P", "Z") or cat in ("Cf", "Cc", "Co", "Cs", "Cn"):
        return False
    return None


CHAR_PREDICATES = {
    "is_alphabetic": _alphabetic,
    "is_ascii_alphabetic": lambda ch: ch.isascii() and ch.isalpha(),
    "is_ascii_digit": lambda ch: ch.isascii() and ch.isdigit(),
    "is_ascii_alphanumeric": lambda ch: ch.isascii() and ch.isalnum(),
    "is_ascii_uppercase": lambda ch: ch.isascii() and ch.isupper(),
    "is_ascii_lowercase": lambda ch: ch.isascii() and ch.islower(),
    "is_ascii_whitespace": lambda ch: ch in " \t\n\x0c\r",
    "is_ascii": lambda ch: ch.isascii(),
    "is_alphanumeric": lambda ch: (True if (_alphabetic(ch) or __import__("unicodedata").category(ch)[0] == "N") else (False if _alphabetic(ch) is False else None)),
    "is_whitespace": lambda ch: ch.isspace() if __import__("unicodedata").category(ch) in ("Zs", "Zl", "Zp", "Cc") or ch.isspace() else False,
}


class TooManyPaths(Exception):
    pass


class State:
    __slots__ = ("env", "conds", "ret", "brk")

    def __init__(self, env, conds=(), ret=None, brk=False):
        self.env = env
        self.conds = conds
        self.ret = ret
        self.brk = brk

    def fork(self, cond=None):
        return State(dict(self.env), self.conds + ((cond,) if cond is not None else ()), self.ret, self.brk)


def mk_bool(b):
    return ("bool", bool(b))


def canon_cmp(op, a, b):
    if op == ">":
        return ("cmp", "<", b, a)
    if op == ">=":
        return ("cmp", "<=", b, a)
    if op in ("==", "!=") and repr(b) < repr(a):
        a, b = b, a
    return ("cmp", op, a, b)


def neg(x):
    if x[0] == "bool":
        return mk_bool(not x[1])
    if x[0] == "not":
        return x[1]
    if x[0] == "cmp":
        op, a, b = x[1], x[2], x[3]
        # total orders are not assumed (partial_cmp): keep the negation symbolic except for == / !=
        if op == "==":
            return ("cmp", "!=", a, b)
        if op == "!=":
            return ("cmp", "==", a, b)
    return ("not", x)


def closed_value(v):
    """a value made of variants, sequences, tuples, literals and symbols only (nothing unknown inside)"""
    if not isinstance(v, tuple) or not v:
        return False
    if v[0] in ("lit", "sym", "bool", "unit"):
        return True
    if v[0] == "v":
        return len(v) == 3 and all(closed_value(x) for x in v[2])
    if v[0] in ("array", "iterv", "tuple"):
        return len(v) > 1 and isinstance(v[1], list) and all(closed_value(x) for x in v[1])
    return False


def norm_value(v):
    if v[0] == "bool":
        return ("lit", v[1])
    if v[0] == "v":
        return ("v", v[1], tuple(norm_value(x) for x in v[2]))
    if v[0] in ("array", "iterv", "tuple"):
        return ("seq" if v[0] != "tuple" else "tuple", tuple(norm_value(x) for x in v[1]))
    return v


READ_ONLY_METHODS = {"len", "is_empty", "iter", "first", "last", "get", "contains", "as_slice", "to_vec", "clone", "as_ref", "deref", "binary_search", "starts_with", "ends_with",
                     "concat", "join", "eq", "ne", "cmp", "partial_cmp", "fmt", "to_string", "to_owned", "windows", "chunks", "split_first", "split_last", "position"}


class Evaluator:
    def __init__(self, F, call_hook=None, max_paths=400, inline=None, ints=False):
        self.F = F
        self.ints = ints                # fold integer arithmetic, constants, arrays, ranges and Option / bool combinators with closures
        self._consts = {}
        self.call_hook = call_hook      # fn(callee, args) -> abstract value or None
        self.max_paths = max_paths
        self.inline = inline or set()   # callee names to evaluate recursively (one level)
        self.loops = 0
        self.calls_seen = []
        self.inlined = set()            # functions whose bodies were evaluated at a call site

    # ------------------------------------------------------------------ entry
    def run(self, params, body, args, env=None):
        st = State(dict(env or {}))
        for p, a in zip(params, args):
            ok = self.match(p, a, st.env)
            if ok is False:
                raise ValueError("argument does not match parameter pattern")
        outs = []
        for s, v in self.ev(body, st):
            outs.append((s.conds, s.ret if s.ret is not None else v))
        return outs

    def run_fn(self, name, args):
        h = self.F.hir_fn(name)
        self.crate = h.get("_crate")
        return self.run(h["params"], h["body"], args)

    def node_type(self, e):
        """type of a HIR expression node as text (needs the crate of the body being evaluated: set by run_fn / inline_call, or by the caller through `ev.crate`)"""
        c = getattr(self, "crate", None)
        t = e.get("t")
        try:
            return self.F.crates[c]["types"][t] if c is not None and t is not None else ""
        except (KeyError, IndexError, TypeError):
            return ""

    # ------------------------------------------------------------------ patterns
    def match(self, p, v, env):
        """True / False / None(unknown); binds into env on (possible) success"""
        k = p.get("k")
        if k in ("Wild",):
            return True
        if k == "Bind":
            env[p["name"]] = v
            if "sub" in p:
                return self.match(p["sub"], v, env)
            return True
        if k in ("Ref", "Guard"):
            return self.match(p["p"], v, env)
        if k == "Or":
            res = [self.match(q, v, env) for q in p["ps"]]
            if any(r is True for r in res):
                return True
            if all(r is False for r in res):
                return False
            return None
        if k == "Lit":
            if v[0] == "bool" and p.get("lit") == "bool":
                return v[1] == p["v"]
            if v[0] == "lit":
                return v[1] == p["v"]
            return None
        if k == "Range" and self.ints and v[0] == "lit" and isinstance(v[1], str) and len(v[1]) == 1:
            lo, hi = p.get("lo"), p.get("hi")
            if (lo is None or (isinstance(lo.get("v"), str) and len(lo["v"]) == 1)) and (hi is None or (isinstance(hi.get("v"), str) and len(hi["v"]) == 1)):
                x = ord(v[1])
                return (lo is None or ord(lo["v"]) <= x) and (hi is None or (x <= ord(hi["v"]) if p.get("end") == "Included" else x < ord(hi["v"])))
            return None
        if k == "Range" and self.ints:
            lo, hi = p.get("lo"), p.get("hi")
            if v[0] == "lit" and isinstance(v[1], int) and not isinstance(v[1], bool) and (lo is None or isinstance(lo.get("v"), int)) and (hi is None or isinstance(hi.get("v"), int)):
                ok = (lo is None or lo["v"] <= v[1]) and (hi is None or (v[1] <= hi["v"] if p.get("end") == "Included" else v[1] < hi["v"]))
                return ok
            return None
        if k == "Slice":
            seq = self.as_seq(v)
            if seq is not None and not p.get("rest_bound"):
                before, after = p.get("ps", []), p.get("after", [])
                if (len(seq) != len(before)) if not p.get("rest") else (len(seq) < len(before) + len(after)):
                    return False
                res = [self.match(q, x, env) for q, x in zip(before, seq)] + [self.match(q, x, env) for q, x in zip(after, seq[len(seq) - len(after):])]
                if any(r is False for r in res):
                    return False
                return True if all(r is True for r in res) else None
            return None
        if k == "Tuple":
            if v[0] == "tuple" and len(v[1]) == len(p["ps"]):
                res = [self.match(q, x, env) for q, x in zip(p["ps"], v[1])]
                if any(r is False for r in res):
                    return False
                if all(r is True for r in res):
                    return True
                return None
            for i, q in enumerate(p["ps"]):
                self.match(q, ("payload", i, v), env)
            return None
        if k in ("TupleStruct", "Struct", "Path"):
            path = p.get("path", "")
            variant = path.split("::")[-1]
            subs = p.get("ps") or [f["p"] for f in p.get("fields", [])]
            if p.get("dk", "").startswith("Const") or p.get("dk", "").startswith("Static"):
                return None
            if v[0] == "v":
                if v[1] != variant:
                    return False
                res = []
                for i, q in enumerate(subs):
                    fv = v[2][i] if i < len(v[2]) else ("payload", i, v)
                    res.append(self.match(q, fv, env))
                if any(r is False for r in res):
                    return False
                if all(r is True for r in res):
                    return True
                return None
            if v[0] == "bool":
                return None
            for i, q in enumerate(subs):
                self.match(q, ("payload", i, ("as", variant, v)), env)
            return None
        return None

    # ------------------------------------------------------------------ expressions
    def ev(self, e, st):
        """yields (state, value)"""
        if st.ret is not None or st.brk:
            yield st, ("unit",)
            return
        k = e.get("k")
        m = getattr(self, "ev_" + k, None)
        if m is None:
            yield st, ("unknown", k)
            return
        n = 0
        for r in m(e, st):
            n += 1
            if n > self.max_paths:
                raise TooManyPaths()
            yield r

    def ev_Lit(self, e, st):
        if e.get("lit") == "bool":
            yield st, mk_bool(e["v"])
        else:
            yield st, ("lit", e.get("v"))

    def ev_Path(self, e, st):
        if e.get("res") == "local":
            yield st, st.env.get(e["name"], ("sym", e["name"]))
            return
        path = e.get("path", "")
        dk = e.get("dk", "")
        if "Ctor" in dk:
            yield st, ("v", path.split("::")[-1], [])
            return
        # well-known constants
        if path.endswith("::VALUE_TRUE"):
            yield st, ("v", "Boolean", [mk_bool(True)])
        elif path.endswith("::VALUE_FALSE"):
            yield st, ("v", "Boolean", [mk_bool(False)])
        elif self.ints and "Const" in dk and self.const_value(path) is not None:
            yield st, self.const_value(path)
        else:
            yield st, ("def", path)

    def const_value(self, path):
        """folded value of a constant item (integers, arrays of integers); None when it does not fold"""
        if path not in self._consts:
            self._consts[path] = None
            h = self.F.hir.get(path)
            if h is not None and h.get("kind") == "const" and len(self._consts) < 200:
                try:
                    outs = list(self.ev(h["body"], State({})))
                except TooManyPaths:
                    outs = []
                if len(outs) == 1 and self.concrete(outs[0][1]):
                    self._consts[path] = outs[0][1]
        return self._consts[path]

    def concrete(self, v):
        if v[0] == "lit":
            return True
        if v[0] == "bool":
            return True
        if v[0] in ("array", "tuple") and len(v) > 1 and isinstance(v[1], list):
            return all(self.concrete(x) for x in v[1])
        if v[0] == "v":
            return all(self.concrete(x) for x in v[2])
        if v[0] == "range":
            return self.concrete(v[1]) and self.concrete(v[2])
        return False

    def ev_AddrOf(self, e, st):
        yield from self.ev(e["e"], st)

    def ev_Cast(self, e, st):
        for s, v in self.ev(e["e"], st):
            if self.ints and v[0] == "lit" and isinstance(v[1], str) and len(v[1]) == 1 and strip_k(e["e"]).get("lit") != "str":
                yield s, ("lit", ord(v[1]))          # `ch as u32`
            elif self.ints and v[0] == "ord" and all(x[0] == "lit" and isinstance(x[1], int) and not isinstance(x[1], bool) for x in v[1:3]):
                yield s, ("lit", (v[1][1] > v[2][1]) - (v[1][1] < v[2][1]))     # `a.cmp(&b) as isize`: Less = -1, Equal = 0, Greater = 1
            elif self.ints and v[0] == "v" and v[1] in ("Less", "Equal", "Greater") and not v[2] and "Ordering" in self.node_type(strip_k(e["e"])):
                yield s, ("lit", {"Less": -1, "Equal": 0, "Greater": 1}[v[1]])
            else:
                yield s, v

    def ev_Unary(self, e, st):
        for s, a in self.ev(e["a"], st):
            if e["op"] == "*":
                yield s, a
            elif e["op"] == "!":
                yield s, neg(a)
            elif self.ints and e["op"] == "-" and self.as_lin(a) is not None:
                yield s, self.binop("-", ("lit", 0), a)
            else:
                yield s, ("un", e["op"], a)

    def ev_Tup(self, e, st):
        def rec(i, s, acc):
            if i == len(e["es"]):
                yield s, ("tuple", list(acc)) if acc else ("unit",)
                return
            for s2, v in self.ev(e["es"][i], s):
                yield from rec(i + 1, s2, acc + [v])
        yield from rec(0, st, [])

    def ev_Binary(self, e, st):
        op = e["op"]
        for s1, a in self.ev(e["a"], st):
            if op == "&&":
                if a == mk_bool(False):
                    yield s1, a
                    continue
            if op == "||":
                if a == mk_bool(True):
                    yield s1, a
                    continue
            for s2, b in self.ev(e["b"], s1):
                if e.get("callee") and self.call_hook:
                    # an overloaded operator (`a == b` on a user type) is a call of the trait method
                    r = self.call_hook(e["callee"], [a, b], s2)
                    if r is not None and not isinstance(r, list):
                        yield s2, (neg(r) if op == "!=" and e["callee"].endswith("::eq") else r)
                        continue
                yield s2, self.binop(op, a, b)

    def binop(self, op, a, b):
        if op == "&&":
            if a == mk_bool(True):
                return b
            if b == mk_bool(True):
                return a
            if b == mk_bool(False):
                return b
            return ("and", a, b)
        if op == "||":
            if a == mk_bool(False):
                return b
            if b == mk_bool(False):
                return a
            if b == mk_bool(True):
                return b
            return ("or", a, b)
        if self.ints and a[0] == "lit" and b[0] == "lit" and isinstance(a[1], int) and isinstance(b[1], int) and not isinstance(a[1], bool) and not isinstance(b[1], bool):
            x, y = a[1], b[1]
            if op in ("==", "!=", "<", "<=", ">", ">="):
                return mk_bool({"==": x == y, "!=": x != y, "<": x < y, "<=": x <= y, ">": x > y, ">=": x >= y}[op])
            if op in ("+", "-", "*"):
                return ("lit", {"+": x + y, "-": x - y, "*": x * y}[op])
            if op in (">>", "<<", "&", "|", "^") and x >= 0 and y >= 0 and (op not in (">>", "<<") or y < 128):
                return ("lit", {">>": x >> y, "<<": x << y, "&": x & y, "|": x | y, "^": x ^ y}[op])
            if op in ("/", "%") and y != 0:
                q = abs(x) // abs(y) * (1 if (x >= 0) == (y >= 0) else -1)      # Rust: truncation towards zero
                return ("lit", q if op == "/" else x - q * y)
        if getattr(self, "vecs", False) and op in ("==", "!=") and a[0] == "lit" and b[0] == "lit" and isinstance(a[1], str) and isinstance(b[1], str):
            return mk_bool((a[1] == b[1]) == (op == "=="))          # two literal texts
        if getattr(self, "vecs", False) and op in ("==", "!=") and closed_value(a) and closed_value(b) and (a[0] == "v" or b[0] == "v" or a[0] == "array" or b[0] == "array"):
            # structural (derived) equality of two fully concrete values; distinct symbols stand for distinct values
            same = norm_value(a) == norm_value(b)
            return mk_bool(same if op == "==" else not same)
        if self.ints and a[0] == "tuple" and b[0] == "tuple" and len(a[1]) == len(b[1]) and op in ("==", "!=", "<", "<=", ">", ">=") and \
                all(x[0] == "lit" and isinstance(x[1], int) and not isinstance(x[1], bool) for x in a[1] + b[1]):
            # tuples of integers compare lexicographically
            x, y = [t[1] for t in a[1]], [t[1] for t in b[1]]
            return mk_bool({"==": x == y, "!=": x != y, "<": x < y, "<=": x <= y, ">": x > y, ">=": x >= y}[op])
        if self.ints and a[0] == "lit" and b[0] == "lit" and isinstance(a[1], str) and isinstance(b[1], str) and op in ("==", "!="):
            return mk_bool((a[1] == b[1]) == (op == "=="))
        if self.ints and op in ("==", "!=") and a[0] == "v" and b[0] == "v" and self.concrete(a) and self.concrete(b):
            return mk_bool((a == b) == (op == "=="))      # structural equality of fully known values (`x == Some(true)`)
        if op in ("==", "!=", "<", "<=", ">", ">="):
            # comparison with an Ordering constant
            for x, y, flip in ((a, b, False), (b, a, True)):
                if x[0] == "ord" and y[0] == "v" and y[1] in ("Less", "Greater", "Equal") and op in ("==", "!="):
                    rel = {"Less": "<", "Greater": ">", "Equal": "=="}[y[1]]
                    r = canon_cmp(rel, x[1], x[2])
                    if op == "==":
                        return r
                    # != Less  ==> >=   ;  != Greater ==> <=  (for the total orders cmp() is defined on)
                    if y[1] == "Less":
                        return canon_cmp(">=", x[1], x[2])
                    if y[1] == "Greater":
                        return canon_cmp("<=", x[1], x[2])
                    return ("cmp", "!=", x[1], x[2])
            if a[0] == "bool" and b[0] == "bool" and op in ("==", "!="):
                return mk_bool((a[1] == b[1]) == (op == "=="))
            if a[0] == "v" and b[0] == "v" and not a[2] and not b[2] and op in ("==", "!="):
                # two field-less enum constructors (Ordering::Less == Ordering::Less)
                return mk_bool((a[1] == b[1]) == (op == "=="))
            return canon_cmp(op, a, b)
        if self.ints and op in ("+", "-", "*"):
            la, lb = self.as_lin(a), self.as_lin(b)
            if la is not None and lb is not None:
                if op == "*":
                    if not la[0]:
                        la, lb = lb, la
                    if not lb[0]:
                        k = lb[1]
                        return self.mk_lin({v: c * k for v, c in la[0].items()}, la[1] * k)
                else:
                    sg = 1 if op == "+" else -1
                    d = dict(la[0])
                    for v, c in lb[0].items():
                        d[v] = d.get(v, 0) + sg * c
                    return self.mk_lin(d, la[1] + sg * lb[1])
        return ("bin", op, a, b)

    @staticmethod
    def as_lin(v):
        """(coefficients, constant) of an integer-valued abstract value: literal, symbol or linear form"""
        if v[0] == "lit" and isinstance(v[1], int) and not isinstance(v[1], bool):
            return {}, v[1]
        if v[0] == "sym":
            return {v[1]: 1}, 0
        if v[0] == "lin":
            return dict(v[1]), v[2]
        return None

    @staticmethod
    def mk_lin(d, k):
        d = {v: c for v, c in d.items() if c != 0}
        if not d:
            return ("lit", k)
        if k == 0 and len(d) == 1 and list(d.values()) == [1]:
            return ("sym", list(d)[0])
        return ("lin", tuple(sorted(d.items())), k)

    def ev_Block(self, e, st):
        yield from self.block(e["b"], st)

    def block(self, b, st):
        stmts = b.get("stmts", [])

        def rec(i, s):
            if s.ret is not None or s.brk:
                yield s, ("unit",)
                return
            if i == len(stmts):
                if b.get("e") is not None:
                    yield from self.ev(b["e"], s)
                else:
                    yield s, ("unit",)
                return
            stx = stmts[i]
            if stx.get("k") == "LetStmt":
                if "e" in stx:
                    for s2, v in self.ev(stx["e"], s):
                        if s2.ret is not None:
                            yield s2, ("unit",)
                            continue
                        s3 = s2.fork()
                        r = self.match(stx["p"], v, s3.env)
                        if r is False and "else" in stx:
                            yield from self.block_then(stx["else"], s2, lambda s4: rec(i + 1, s4))
                        elif r is None and "else" in stx:
                            # fork: pattern matched / did not match
                            yield from rec(i + 1, s3.fork(("let-match", self.short(v), True)))
                            for s4, _ in self.block(stx["else"], s2.fork(("let-match", self.short(v), False))):
                                yield from rec(i + 1, s4)
                        else:
                            yield from rec(i + 1, s3)
                else:
                    yield from rec(i + 1, s)
            else:
                for s2, _ in self.ev(stx, s):
                    yield from rec(i + 1, s2)
        yield from rec(0, st)

    def block_then(self, b, st, k):
        for s, _ in self.block(b, st):
            yield from k(s)

    def ev_If(self, e, st):
        c = e["c"]
        if c.get("k") == "Let":
            for s1, v in self.ev(c["e"], st):
                s_then = s1.fork()
                r = self.match(c["p"], v, s_then.env)
                if r is True:
                    yield from self.ev(e["then"], s_then)
                elif r is False:
                    if "else" in e:
                        yield from self.ev(e["else"], s1)
                    else:
                        yield s1, ("unit",)
                else:
                    pc = ("if-let", self.pat_text(c["p"]), self.short(v))
                    s_then.conds = s1.conds + (pc + (True,),)
                    yield from self.ev(e["then"], s_then)
                    s_else = s1.fork(pc + (False,))
                    if "else" in e:
                        yield from self.ev(e["else"], s_else)
                    else:
                        yield s_else, ("unit",)
            return
        for s1, v in self.ev(c, st):
            if v == mk_bool(True):
                yield from self.ev(e["then"], s1)
            elif v == mk_bool(False):
                if "else" in e:
                    yield from self.ev(e["else"], s1)
                else:
                    yield s1, ("unit",)
            else:
                # symbolic condition: evaluate both, merge into ite when both are single-path pure values
                ct = ("if", self.short(v), True) + ((v,) if self.ints else ())
                cf = ("if", self.short(v), False) + ((v,) if self.ints else ())
                ts = list(self.ev(e["then"], s1.fork(ct)))
                es = list(self.ev(e["else"], s1.fork(cf))) if "else" in e else [(s1.fork(cf), ("unit",))]
                if not self.ints and len(ts) == 1 and len(es) == 1 and ts[0][0].ret is None and es[0][0].ret is None and not ts[0][0].brk and not es[0][0].brk \
                        and ts[0][0].env == s1.env and es[0][0].env == s1.env:
                    yield s1, ("ite", v, ts[0][1], es[0][1])
                else:
                    yield from ts
                    yield from es

    def ev_Match(self, e, st):
        src = e.get("src")
        if src == "ForLoopDesugar":
            self.loops += 1
            if self.ints:
                done = False
                for s1, it in self.ev(e["e"], st):
                    seq = self.as_seq(it)
                    if seq is None or len(seq) > 64:
                        break
                    yield from self.unroll(e, s1, seq)
                    done = True
                if done:
                    return
            # the loop body is evaluated once with opaque items to collect returns; then control continues
            yield from self.loop(e, st)
            return
        for s1, v in self.ev(e["e"], st):
            if src == "TryDesugar" and v[0] == "call" and isinstance(v[1], str) and v[1].endswith("Try::branch") and len(v[2]) == 1:
                v = v[2][0]          # `x?` is match Try::branch(x) { Continue(v) => v, Break(r) => return from_residual(r) }
            if src == "TryDesugar" and v[0] == "v" and v[1] in ("None", "Err"):
                s2 = s1.fork()
                s2.ret = v
                yield s2, ("unit",)
                continue
            if src == "TryDesugar":
                # `?` : continue with the payload (error path is not a normal return)
                yield s1, ("payload", 0, v) if not (v[0] == "v" and v[1] in ("Ok", "Some")) else (v[2][0] if v[2] else ("unit",))
                continue
            undecided = False
            for arm in e["arms"]:
                s_arm = s1.fork()
                r = self.match(arm["p"], v, s_arm.env)
                if r is False:
                    continue
                if "g" in arm:
                    gs = list(self.ev(arm["g"], s_arm))
                    if len(gs) == 1 and gs[0][1] == mk_bool(False):
                        continue
                    if not (len(gs) == 1 and gs[0][1] == mk_bool(True)):
                        r = None
                if r is True:
                    yield from self.ev(arm["b"], s_arm)
                    break
                undecided = True
                s_arm.conds = s1.conds + (("match-arm", self.pat_text(arm["p"]), self.short(v)),)
                yield from self.ev(arm["b"], s_arm)
            else:
                if not undecided:
                    yield s1, ("unknown", "no arm matched")

    def loop(self, e, st):
        # e is the desugared `match IntoIterator::into_iter(x) { mut iter => loop { match iter.next() { None => break, Some(pat) => body } } }`
        body_arms = []

        def find(n):
            if isinstance(n, dict):
                if n.get("k") == "Match" and n.get("src") == "ForLoopDesugar" and n is not e:
                    body_arms.append(n)
                    return
                for v in n.values():
                    if isinstance(v, (dict, list)):
                        find(v)
            elif isinstance(n, list):
                for x in n:
                    find(x)
        find(e["arms"])
        outs = []
        if body_arms:
            inner = body_arms[0]
            for arm in inner["arms"]:
                if arm["p"].get("k") in ("TupleStruct", "Struct") and arm["p"].get("path", "").endswith("Some"):
                    s2 = st.fork(("loop-iteration",))
                    sub = arm["p"]["ps"][0] if arm["p"].get("ps") else arm["p"]["fields"][0]["p"]
                    self.match(sub, ("sym", "loop-item"), s2.env)
                    for s3, _ in self.ev(arm["b"], s2):
                        if s3.ret is not None:
                            outs.append((s3, ("unit",)))
        for o in outs:
            yield o
        # loop finished without returning
        yield st.fork(("loop-done",)), ("unit",)

    @staticmethod
    def as_seq(v):
        """items of a concrete sequence value (array / unrolled iterator), None otherwise"""
        if isinstance(v, tuple) and v[0] in ("array", "iterv") and len(v) > 1 and isinstance(v[1], list):
            return v[1]
        if isinstance(v, tuple) and v[0] == "call" and isinstance(v[1], str) and v[1].endswith("IntoIterator::into_iter") and len(v[2]) == 1:
            return Evaluator.as_seq(v[2][0])
        return None

    def unroll(self, e, st, seq):
        """a `for` loop over a concrete sequence: the body is evaluated once per item, in order; break / continue / return are honoured"""
        body_arms = []

        def find(n):
            if isinstance(n, dict):
                if n.get("k") == "Match" and n.get("src") == "ForLoopDesugar" and n is not e:
                    body_arms.append(n)
                    return
                for v in n.values():
                    if isinstance(v, (dict, list)):
                        find(v)
            elif isinstance(n, list):
                for x in n:
                    find(x)
        find(e["arms"])
        some = None
        for arm in (body_arms[0]["arms"] if body_arms else []):
            if arm["p"].get("k") in ("TupleStruct", "Struct") and arm["p"].get("path", "").endswith("Some"):
                some = arm
        if some is None:
            yield st.fork(("loop-done",)), ("unknown", "loop")
            return
        sub = some["p"]["ps"][0] if some["p"].get("ps") else some["p"]["fields"][0]["p"]

        my_id = None
        for lp in self._loops_in(e["arms"]):
            my_id = lp.get("id")
            break
        wb = self._mut_source(e) if getattr(self, "vecs", False) else None          # (path of the vector, name bound to the element) for `for x in v.iter_mut()`

        def rec(i, s):
            if i == len(seq) or s.ret is not None:
                yield s, ("unit",)
                return
            s2 = s.fork()
            item = seq[i]
            if wb is not None:
                # the element is read from the vector as it is now (earlier iterations may have written other elements)
                cur = self.get_path(s2, wb[0])
                cs = self.as_seq(cur) if cur is not None else None
                if cs is not None and i < len(cs):
                    item = ("tuple", [item[1][0], cs[i]]) if wb[2] and item[0] == "tuple" else cs[i]
            self.match(sub, item, s2.env)
            for s3, _ in self.ev(some["b"], s2):
                if s3.ret is not None:
                    yield s3, ("unit",)
                    continue
                how = self.loop_exit(s3.brk, my_id) if s3.brk else None
                s4 = s3.fork()
                if wb is not None and wb[1] in s4.env:
                    cur = self.get_path(s4, wb[0])
                    cs = self.as_seq(cur) if cur is not None else None
                    if cs is not None and i < len(cs):
                        q = list(cs)
                        q[i] = s4.env[wb[1]]
                        self.put(s4, wb[0], ("array", q))
                if how == "outer":
                    yield s4, ("unit",)
                elif how == "break":
                    s4.brk = False
                    yield s4, ("unit",)
                else:
                    s4.brk = False
                    yield from rec(i + 1, s4)
        n = 0
        for r in rec(0, st):
            n += 1
            if n > self.max_paths:
                raise TooManyPaths()
            yield r

    def ev_Loop(self, e, st):
        self.loops += 1
        if getattr(self, "vecs", False) and e.get("src") in ("Loop", "While") and e.get("id") is not None:
            # folding tables: the loop is executed iteration by iteration on the concrete state (bounded; an iteration that does not decide its exit makes the result unknown)
            my_id = e["id"]
            work = [(st, 0)]
            total = 0
            while work:
                s, n = work.pop()
                if n > 400:
                    yield s.fork(("loop-bound",)), ("unknown", "loop bound")
                    continue
                for s3, _ in self.block(e["b"], s):
                    total += 1
                    if total > 20000:
                        raise TooManyPaths()
                    if s3.ret is not None:
                        yield s3, ("unit",)
                        continue
                    how = self.loop_exit(s3.brk, my_id) if s3.brk else None
                    if how == "outer":
                        yield s3, ("unit",)
                    elif how == "break":
                        s4 = s3.fork()
                        s4.brk = False
                        yield s4, ("unit",)
                    else:
                        s4 = s3.fork()
                        s4.brk = False
                        if s4.conds != s.conds:
                            # the iteration left a condition open: continuing would not be an execution any more
                            yield s4.fork(("loop-iteration",)), ("unknown", "loop")
                        else:
                            work.append((s4, n + 1))
            return
        s2 = st.fork(("loop-iteration",))
        for s3, _ in self.block(e["b"], s2):
            if s3.ret is not None:
                yield s3, ("unit",)
        s4 = st.fork(("loop-done",))
        yield s4, ("unknown", "loop")

    def ev_Break(self, e, st):
        s = st.fork()
        s.brk = ("break", e["target"]) if getattr(self, "vecs", False) and e.get("target") is not None else True
        yield s, ("unit",)

    def ev_Continue(self, e, st):
        s = st.fork()
        s.brk = ("continue", e["target"]) if getattr(self, "vecs", False) and e.get("target") is not None else "continue"
        yield s, ("unit",)

    @staticmethod
    def loop_exit(brk, my_id):
        """how a pending break / continue concerns the loop `my_id`: "break" / "continue" for this loop, "outer" when it names an enclosing loop"""
        if brk is True:
            return "break"
        if brk == "continue":
            return "continue"
        if isinstance(brk, tuple):
            return brk[0] if (my_id is None or brk[1] == my_id) else "outer"
        return None

    def ev_Ret(self, e, st):
        if "e" in e:
            for s, v in self.ev(e["e"], st):
                if s.ret is not None:
                    yield s, ("unit",)          # `return match x { .. => { ..; return true; } .. }`: an inner return already left the function on this path
                    continue
                s2 = s.fork()
                s2.ret = v
                yield s2, ("unit",)
        else:
            s2 = st.fork()
            s2.ret = ("unit",)
            yield s2, ("unit",)

    def ev_Let(self, e, st):
        # `let` used as a boolean expression (let chains) - rare
        for s, v in self.ev(e["e"], st):
            r = self.match(e["p"], v, s.env)
            yield s, mk_bool(r) if r is not None else ("unknown", "let")

    def ev_Assign(self, e, st):
        for s, v in self.ev(e["b"], st):
            a = e["a"]
            if a.get("k") == "Path" and a.get("res") == "local":
                s2 = s.fork()
                s2.env[a["name"]] = v
                yield s2, ("unit",)
            elif getattr(self, "vecs", False) and self.recv_path_of(a) is not None:
                # folding tables: `x.f = v`, `*r = v`, `self.f.g = v` (references are transparent: a write through one is a write of the value it holds)
                s2 = s.fork()
                self.put(s2, self.recv_path_of(a), v)
                yield s2, ("unit",)
            else:
                yield s, ("unit",)

    def ev_AssignOp(self, e, st):
        a = e.get("a", {})
        if self.ints and a.get("k") == "Path" and a.get("res") == "local":
            for s, v in self.ev(e["b"], st):
                s2 = s.fork()
                old = s2.env.get(a["name"], ("sym", a["name"]))
                s2.env[a["name"]] = self.binop((e.get("op") or "").rstrip("="), old, v)
                yield s2, ("unit",)
            return
        if self.ints and getattr(self, "vecs", False) and self.recv_path_of(a) is not None:
            # folding tables: `self.position += 2` (a field of a tracked record, or through a reference)
            path = self.recv_path_of(a)
            for s, v in self.ev(e["b"], st):
                s2 = s.fork()
                old = self.get_path(s2, path)
                self.put(s2, path, self.binop((e.get("op") or "").rstrip("="), old, v) if old is not None else ("unknown", "compound assignment to an unknown place"))
                yield s2, ("unit",)
            return
        yield st, ("unit",)

    def ev_Field(self, e, st):
        for s, v in self.ev(e["e"], st):
            if self.ints and v[0] == "tuple" and str(e["name"]).isdigit() and int(e["name"]) < len(v[1]):
                yield s, v[1][int(e["name"])]
                continue
            if v[0] == "rec" and e["name"] in v[1]:
                yield s, v[1][e["name"]]          # a record given by its fields (`ev.vecs` tables)
                continue
            if self.ints and v[0] == "range" and e["name"] in ("start", "end") and not v[3]:
                yield s, (v[1] if e["name"] == "start" else v[2])          # `range.end` of a concrete `a..b`
                continue
            yield s, ("field", e["name"], v)

    def ev_Index(self, e, st):
        for s, v in self.ev(e["a"], st):
            if self.ints and v[0] == "array" and len(v) > 1 and "b" in e:
                for s2, i in self.ev(e["b"], s):
                    if i[0] == "lit" and isinstance(i[1], int) and 0 <= i[1] < len(v[1]):
                        yield s2, v[1][i[1]]
                    elif i[0] == "struct" and str(i[1] or "").endswith("RangeFull"):
                        yield s2, v          # `array[..]`: the whole array as a slice
                    elif i[0] in ("range", "rangefrom", "rangeto") and all(b[0] == "lit" and isinstance(b[1], int) and not isinstance(b[1], bool) for b in i[1:3] if isinstance(b, tuple)):
                        lo = i[1][1] if i[0] in ("range", "rangefrom") else 0
                        hi = (i[2][1] + (1 if i[3] else 0)) if i[0] == "range" else (i[1][1] + (1 if i[2] else 0)) if i[0] == "rangeto" else len(v[1])
                        if 0 <= lo <= hi <= len(v[1]):
                            yield s2, ("array", list(v[1][lo:hi]))
                        else:
                            yield s2, ("index", v)
                    else:
                        yield s2, ("index", v)
                continue
            if self.ints and getattr(self, "vecs", False) and v[0] == "lit" and isinstance(v[1], str) and "b" in e:
                raw = v[1].encode("utf-8")
                done = False
                for s2, i in self.ev(e["b"], s):
                    done = True
                    if i[0] in ("range", "rangefrom", "rangeto") and all(b[0] == "lit" and isinstance(b[1], int) and not isinstance(b[1], bool) for b in i[1:3] if isinstance(b, tuple)):
                        lo = i[1][1] if i[0] in ("range", "rangefrom") else 0
                        hi = (i[2][1] + (1 if i[3] else 0)) if i[0] == "range" else (i[1][1] + (1 if i[2] else 0)) if i[0] == "rangeto" else len(raw)
                        try:
                            if not 0 <= lo <= hi <= len(raw):
                                raise ValueError
                            yield s2, ("lit", raw[lo:hi].decode("utf-8"))
                        except ValueError:
                            yield s2, ("unknown", "panic: text sliced outside a character boundary")
                    else:
                        yield s2, ("index", v)
                if done:
                    continue
            yield s, ("index", v)

    def ev_Closure(self, e, st):
        if self.ints:
            yield st, ("closure", e.get("name"), e, dict(st.env))
        else:
            yield st, ("closure", e.get("name"))

    def apply_closure(self, clo, args, s):
        """value(s) of calling a closure value: the body is evaluated in the captured environment; `return` / `?` inside leave the closure only"""
        node = clo[2]
        sub = State(dict(clo[3]), s.conds)
        for p, a in zip(node.get("params", []), args):
            self.match(p.get("p", p), a, sub.env)
        for s2, v in self.ev(node["body"], sub):
            yield State(s.env, s2.conds, s.ret, s.brk), (s2.ret if s2.ret is not None else v)

    def ev_Struct(self, e, st):
        path = e.get("path") or ""
        if self.ints and path in ("core::ops::Range", "core::ops::range::Range", "core::ops::RangeInclusive", "core::ops::range::RangeInclusive"):
            f = {x["name"]: x["e"] for x in e.get("fields", [])}
            if "start" in f and "end" in f:
                for s1, lo in self.ev(f["start"], st):
                    for s2, hi in self.ev(f["end"], s1):
                        yield s2, ("range", lo, hi, "Inclusive" in path)
                return
        if self.ints and getattr(self, "vecs", False) and re.search(r"ops::(range::)?(RangeFrom|RangeTo|RangeToInclusive)$", path):
            f = {x["name"]: x["e"] for x in e.get("fields", [])}
            k = "start" if "start" in f else "end"
            for s1, b in self.ev(f[k], st):
                yield s1, (("rangefrom", b) if k == "start" else ("rangeto", b, path.endswith("Inclusive")))
            return
        if getattr(self, "vecs", False) and e.get("fields") is not None and "base" not in e:
            # folding tables: a struct literal is the record of its fields
            fs = e["fields"]

            def rec(i, s, acc):
                if i == len(fs):
                    yield s, ("rec", dict(acc), e.get("path"))
                    return
                for s2, v in self.ev(fs[i]["e"], s):
                    yield from rec(i + 1, s2, acc + [(fs[i]["name"], v)])
            yield from rec(0, st, [])
            return
        yield st, ("struct", e.get("path"))

    def builtin(self, callee, method, args, s):
        """folding of std combinators over known operands (ints mode); yields (state, value) or nothing when it does not apply"""
        c = callee or ""
        if getattr(self, "vecs", False):
            # a function item used as the callable of a combinator (`opt.map_or(false, is_whitespace)`) is applied like a closure without captures
            conv = []
            for x in args:
                hh = self.F.hir.get(x[1]) if isinstance(x, tuple) and len(x) == 2 and x[0] == "def" and isinstance(x[1], str) else None
                conv.append(("closure", x[1], {"params": hh["params"], "body": hh["body"]}, {}) if hh is not None and "body" in hh else x)
            args = conv
        a0 = args[0] if args else None
        some = lambda x: ("v", "Some", [x])
        none = ("v", "None", [])
        is_opt = lambda v: v[0] == "v" and v[1] in ("Some", "None")
        seq0 = self.as_seq(a0) if a0 is not None else None
        if method in ("unwrap_or", "unwrap_or_default") and a0 is not None and a0[0] == "v" and a0[1] in ("Some", "Ok") and a0[2]:
            yield s, a0[2][0]
            return
        if method == "unwrap_or" and a0 is not None and a0[0] == "v" and a0[1] in ("None", "Err") and len(args) == 2:
            yield s, args[1]
            return
        if method in ("checked_add", "checked_sub", "checked_mul") and len(args) == 2 and all(x[0] == "lit" and isinstance(x[1], int) and not isinstance(x[1], bool) for x in args):
            r = {"checked_add": args[0][1] + args[1][1], "checked_sub": args[0][1] - args[1][1], "checked_mul": args[0][1] * args[1][1]}[method]
            m2 = re.search(r"Option<([iu])(\d+|size)>", getattr(self, "cur_ty", "") or "")
            if m2:
                bits = 64 if m2.group(2) == "size" else int(m2.group(2))
                lo, hi = (0, 2 ** bits - 1) if m2.group(1) == "u" else (-2 ** (bits - 1), 2 ** (bits - 1) - 1)
                yield s, (some(("lit", r)) if lo <= r <= hi else none)
                return
        # operators written as method calls on integers: `a.rem(60)`, `a.div(60)` (std::ops traits in scope)
        if method in ("rem", "div", "add", "sub", "mul") and len(args) == 2 and re.search(r"core::ops::arith::(Rem|Div|Add|Sub|Mul)", callee or "") and \
                all(x[0] == "lit" and isinstance(x[1], int) and not isinstance(x[1], bool) for x in args):
            r = self.binop({"rem": "%", "div": "/", "add": "+", "sub": "-", "mul": "*"}[method], args[0], args[1])
            if r[0] == "lit":
                yield s, r
                return
        # concrete text (opt-in with `ev.vecs`): the str methods the string built-ins use, on literal receivers
        if getattr(self, "vecs", False) and a0 is not None and a0[0] == "lit" and isinstance(a0[1], str) and re.search(r"\bstr\b|String", c):
            t = a0[1]
            a1 = args[1] if len(args) == 2 else None
            txt1 = a1[1] if a1 is not None and a1[0] == "lit" and isinstance(a1[1], str) else None
            if method == "chars" and len(args) == 1:
                yield s, ("iterv", [("lit", ch) for ch in t])
                return
            if method == "len" and len(args) == 1:
                yield s, ("lit", len(t.encode("utf-8")))
                return
            if method == "is_empty" and len(args) == 1:
                yield s, mk_bool(not t)
                return
            if method in ("starts_with", "ends_with", "contains") and txt1 is not None:
                yield s, mk_bool({"starts_with": t.startswith, "ends_with": t.endswith, "contains": t.__contains__}[method](txt1))
                return
            if method in ("find", "rfind") and txt1 is not None:
                i = t.find(txt1) if method == "find" else t.rfind(txt1)
                yield s, (some(("lit", len(t[:i].encode("utf-8")))) if i >= 0 else none)
                return
        # growable vectors as concrete sequences (opt-in: `ev.vecs = True`): Vec::new() / with_capacity(n) / push on a local
        if getattr(self, "vecs", False):
            if method in ("new", "with_capacity", "default") and re.search(r"\bvec::Vec\b", c) and len(args) <= 1:
                yield s, ("array", [])
                return
            if method == "push" and seq0 is not None and len(args) == 2 and getattr(self, "recv_path", None) and re.search(r"\bvec::Vec\b", c):
                s2 = s.fork()
                self.put(s2, self.recv_path, ("array", list(seq0) + [args[1]]))
                yield s2, ("unit",)
                return
            if method in ("extend", "extend_from_slice", "append") and seq0 is not None and len(args) == 2 and getattr(self, "recv_path", None) and re.search(r"\bvec::Vec\b|Extend", c):
                more = self.as_seq(args[1])
                s2 = s.fork()
                self.put(s2, self.recv_path, ("array", list(seq0) + list(more)) if more is not None else ("unknown", "extended by an unknown sequence"))
                yield s2, ("unit",)
                return
            if method in ("sort_by", "sort_unstable_by") and seq0 is not None and len(args) == 2 and args[1][0] == "closure" and len(args[1]) == 4 and getattr(self, "recv_path", None):
                import functools
                bad = []
                rl = self.recv_path          # (the comparisons below evaluate other method calls, which overwrite the attribute)

                def cmpf(x, y):
                    rs = list(self.apply_closure(args[1], [x, y], s))
                    if len(rs) == 1 and rs[0][1][0] == "v" and rs[0][1][1] in ("Less", "Equal", "Greater"):
                        return {"Less": -1, "Equal": 0, "Greater": 1}[rs[0][1][1]]
                    bad.append(1)
                    return 0
                out = sorted(seq0, key=functools.cmp_to_key(cmpf))          # stable, like slice::sort_by
                s2 = s.fork()
                self.put(s2, rl, ("array", out) if not bad else ("unknown", "sorted with a comparison that does not fold"))
                yield s2, ("unit",)
                return
            if method == "position" and seq0 is not None and len(args) == 2 and args[1][0] == "closure" and len(args[1]) == 4:
                for i, x in enumerate(seq0):
                    rs = list(self.apply_closure(args[1], [x], s))
                    if len(rs) != 1 or rs[0][1][0] != "bool":
                        return
                    if rs[0][1][1]:
                        yield s, some(("lit", i))
                        return
                yield s, none
                return
            if method == "retain" and seq0 is not None and len(args) == 2 and args[1][0] == "closure" and len(args[1]) == 4 and getattr(self, "recv_path", None):
                rl = self.recv_path
                keep, okk = [], True
                for x in seq0:
                    rs = list(self.apply_closure(args[1], [x], s))
                    if len(rs) != 1 or rs[0][1][0] != "bool":
                        okk = False
                        break
                    if rs[0][1][1]:
                        keep.append(x)
                s2 = s.fork()
                self.put(s2, rl, ("array", keep) if okk else ("unknown", "retain with a predicate that does not fold"))
                yield s2, ("unit",)
                return
            if method in ("reverse", "clear") and seq0 is not None and len(args) == 1 and getattr(self, "recv_path", None) and re.search(r"\bvec::Vec\b|slice", c):
                s2 = s.fork()
                self.put(s2, self.recv_path, ("array", list(reversed(seq0)) if method == "reverse" else []))
                yield s2, ("unit",)
                return
            if method in ("len", "is_empty") and seq0 is not None and len(args) == 1:
                yield s, (("lit", len(seq0)) if method == "len" else mk_bool(not seq0))
                return
        if seq0 is not None and method in ("iter", "into_iter", "to_vec", "as_slice", "iter_mut", "cloned", "copied", "as_ref", "by_ref", "deref", "clone") and len(args) == 1:
            yield s, ("iterv", list(seq0))
        elif seq0 is not None and method == "enumerate" and len(args) == 1:
            yield s, ("iterv", [("tuple", [("lit", i), x]) for i, x in enumerate(seq0)])
        elif seq0 is not None and method == "get" and len(args) == 2 and args[1][0] == "lit" and isinstance(args[1][1], int) and not isinstance(args[1][1], bool) and getattr(self, "vecs", False):
            yield s, (some(seq0[args[1][1]]) if 0 <= args[1][1] < len(seq0) else none)
        elif seq0 is not None and method == "get" and len(args) == 2 and args[1][0] in ("range", "rangefrom", "rangeto") and getattr(self, "vecs", False) and \
                all(b[0] == "lit" and isinstance(b[1], int) and not isinstance(b[1], bool) for b in args[1][1:3] if isinstance(b, tuple)):
            i = args[1]
            lo = i[1][1] if i[0] in ("range", "rangefrom") else 0
            hi = (i[2][1] + (1 if i[3] else 0)) if i[0] == "range" else (i[1][1] + (1 if i[2] else 0)) if i[0] == "rangeto" else len(seq0)
            yield s, (some(("array", list(seq0[lo:hi]))) if 0 <= lo <= hi <= len(seq0) else none)
        elif seq0 is not None and method == "windows" and len(args) == 2 and args[1][0] == "lit" and isinstance(args[1][1], int) and args[1][1] > 0 and getattr(self, "vecs", False):
            k = args[1][1]
            yield s, ("iterv", [("array", list(seq0[j:j + k])) for j in range(0, max(0, len(seq0) - k + 1))])
        elif a0 is not None and is_opt(a0) and method in ("copied", "cloned") and len(args) == 1:
            yield s, a0
        elif seq0 is not None and method == "flatten" and len(args) == 1 and all(x[0] == "v" and x[1] in ("Some", "None") for x in seq0):
            yield s, ("iterv", [x[2][0] for x in seq0 if x[1] == "Some"])          # an iterator over options yields the payloads
        elif seq0 is not None and method == "zip" and len(args) == 2 and self.as_seq(args[1]) is not None:
            yield s, ("iterv", [("tuple", [x, y]) for x, y in zip(seq0, self.as_seq(args[1]))])
        elif seq0 is not None and method == "rev" and len(args) == 1:
            yield s, ("iterv", list(reversed(seq0)))
        elif seq0 is not None and method in ("map", "filter", "filter_map") and len(args) == 2 and args[1][0] == "closure" and len(args[1]) == 4:
            out, ok = [], True
            for x in seq0:
                rs = list(self.apply_closure(args[1], [x], s))
                if len(rs) != 1:
                    ok = False
                    break
                r = rs[0][1]
                if method == "map":
                    out.append(r)
                elif method == "filter":
                    if r == mk_bool(True):
                        out.append(x)
                    elif r != mk_bool(False):
                        ok = False
                        break
                else:
                    if r[0] == "v" and r[1] == "Some":
                        out.append(r[2][0])
                    elif not (r[0] == "v" and r[1] == "None"):
                        ok = False
                        break
            if ok:
                yield s, ("iterv", out)
        elif seq0 is not None and method in ("take_while", "skip_while") and len(args) == 2 and args[1][0] == "closure" and len(args[1]) == 4:
            n, okk = 0, True
            for x in seq0:
                rs = list(self.apply_closure(args[1], [x], s))
                if len(rs) != 1 or rs[0][1][0] != "bool":
                    okk = False
                    break
                if not rs[0][1][1]:
                    break
                n += 1
            if okk:
                yield s, ("iterv", list(seq0[:n] if method == "take_while" else seq0[n:]))
        elif seq0 is not None and method in ("all", "any") and len(args) == 2 and args[1][0] == "closure" and len(args[1]) == 4:
            res, ok = [], True
            for x in seq0:
                rs = list(self.apply_closure(args[1], [x], s))
                if len(rs) != 1 or rs[0][1][0] != "bool":
                    ok = False
                    break
                res.append(rs[0][1][1])
            if ok:
                yield s, mk_bool(all(res) if method == "all" else any(res))
        elif seq0 is not None and method == "next" and len(args) == 1 and getattr(self, "recv_local", None):
            s2 = s.fork()
            s2.env[self.recv_local] = ("iterv", list(seq0[1:]))
            yield s2, (some(seq0[0]) if seq0 else none)
        elif seq0 is not None and method in ("skip", "take") and len(args) == 2 and args[1][0] == "lit" and isinstance(args[1][1], int) and args[1][1] >= 0:
            yield s, ("iterv", list(seq0[args[1][1]:] if method == "skip" else seq0[:args[1][1]]))
        elif seq0 is not None and method == "chain" and len(args) == 2 and self.as_seq(args[1]) is not None:
            yield s, ("iterv", list(seq0) + list(self.as_seq(args[1])))
        elif seq0 is not None and method == "chain" and len(args) == 2 and args[1][0] == "call" and str(args[1][1]).endswith("iter::sources::repeat::repeat") and len(args[1][2]) == 1:
            yield s, ("padseq", list(seq0), args[1][2][0])          # a finite sequence followed by one item repeated for ever
        elif a0 is not None and a0[0] == "padseq" and method == "take" and len(args) == 2 and args[1][0] == "lit" and isinstance(args[1][1], int) and args[1][1] >= 0:
            n = args[1][1]
            yield s, ("iterv", list(a0[1][:n]) + [a0[2]] * max(0, n - len(a0[1])))
        elif a0 is not None and a0[0] == "padseq" and method == "skip" and len(args) == 2 and args[1][0] == "lit" and isinstance(args[1][1], int) and args[1][1] >= 0:
            yield s, ("padseq", list(a0[1][args[1][1]:]), a0[2])
        elif seq0 is not None and method == "collect" and len(args) == 1 and getattr(self, "vecs", False) and "String" in (getattr(self, "cur_ty", "") or "") and \
                all(x[0] == "lit" and isinstance(x[1], str) for x in seq0):
            yield s, ("lit", "".join(x[1] for x in seq0))          # characters (or pieces) collected into a String
        elif seq0 is not None and method == "collect" and len(args) == 1 and re.match(r"^core::(option::Option|result::Result)<", getattr(self, "cur_ty", "") or "") and \
                all(x[0] == "v" and x[1] in ("Some", "None", "Ok", "Err") for x in seq0):
            # `collect::<Option<Vec<_>>>()` / `Result<Vec<_>, _>`: the first None / Err wins, otherwise the payloads
            stop = [x for x in seq0 if x[1] in ("None", "Err")]
            if stop:
                yield s, stop[0]
            else:
                yield s, ("v", "Some" if (self.cur_ty or "").startswith("core::option") else "Ok", [("array", [x[2][0] for x in seq0])])
        elif seq0 is not None and method == "collect" and len(args) == 1:
            yield s, ("array", list(seq0))
        elif seq0 is not None and method in ("len", "count") and len(args) == 1:
            yield s, ("lit", len(seq0))
        elif seq0 is not None and method == "is_empty" and len(args) == 1:
            yield s, mk_bool(not seq0)
        elif seq0 is not None and method in ("first", "last") and len(args) == 1:
            yield s, (some(seq0[0 if method == "first" else -1]) if seq0 else none)
        elif (c.endswith("::from_digit") and "char" in c) and len(args) == 2 and a0[0] == "lit" and isinstance(a0[1], int) and args[1][0] == "lit" and isinstance(args[1][1], int):
            yield s, (some(("lit", "0123456789abcdefghijklmnopqrstuvwxyz"[a0[1]])) if 0 <= a0[1] < args[1][1] <= 36 else none)
        elif "char" in c and len(args) == 1 and a0[0] == "lit" and isinstance(a0[1], str) and len(a0[1]) == 1 and method in CHAR_PREDICATES:
            r = CHAR_PREDICATES[method](a0[1])
            if r is not None:
                yield s, mk_bool(r)
        elif c.endswith("RangeInclusive::<Idx>::new") and len(args) == 2:
            yield s, ("range", args[0], args[1], True)
        elif method == "contains" and "ops::range::Range" in c and len(args) == 2 and a0[0] == "range":
            lo, hi, x = a0[1], a0[2], args[1]
            if lo[0] == "lit" and hi[0] == "lit" and x[0] == "lit" and all(isinstance(v[1], int) for v in (lo, hi, x)):
                yield s, mk_bool(lo[1] <= x[1] and (x[1] <= hi[1] if a0[3] else x[1] < hi[1]))
            else:
                yield s, self.binop("&&", self.binop("<=", lo, x), self.binop("<=" if a0[3] else "<", x, hi))
        elif c.startswith("core::option::Option") and method in ("map", "and_then", "filter", "is_some_and") and len(args) == 2 and args[1][0] == "closure" and len(args[1]) == 4:
            forks = [(s, a0)] if is_opt(a0) else [(s.fork(("if-let", "Some(_)", self.short(a0), True)), some(("payload", 0, a0))), (s.fork(("if-let", "Some(_)", self.short(a0), False)), none)]
            for s1, o in forks:
                if o[1] == "None":
                    yield s1, (none if method != "is_some_and" else mk_bool(False))
                    continue
                for s2, r in self.apply_closure(args[1], [o[2][0]], s1):
                    if method == "map":
                        yield s2, some(r)
                    elif method == "filter":
                        yield s2, (o if r == mk_bool(True) else none if r == mk_bool(False) else ("ite", r, o, none))
                    else:
                        yield s2, r
        elif c.startswith("core::option::Option") and method in ("map_or", "map_or_else") and len(args) == 3 and args[2][0] == "closure" and len(args[2]) == 4:
            forks = [(s, a0)] if is_opt(a0) else [(s.fork(("if-let", "Some(_)", self.short(a0), True)), some(("payload", 0, a0))), (s.fork(("if-let", "Some(_)", self.short(a0), False)), none)]
            for s1, o in forks:
                if o[1] == "None":
                    if method == "map_or":
                        yield s1, args[1]
                    elif args[1][0] == "closure" and len(args[1]) == 4:
                        yield from self.apply_closure(args[1], [], s1)
                    else:
                        yield s1, ("call", None, [args[1]])
                else:
                    yield from self.apply_closure(args[2], [o[2][0]], s1)
        elif c.startswith("core::option::Option") and method == "unwrap_or_else" and len(args) == 2 and is_opt(a0) and args[1][0] == "closure" and len(args[1]) == 4:
            if a0[1] == "Some":
                yield s, a0[2][0]
            else:
                yield from self.apply_closure(args[1], [], s)
        elif c.startswith("core::bool::<impl bool>::then") and len(args) == 2:
            conds = [(s, a0)] if a0[0] == "bool" else [(s.fork(("if", self.short(a0), True)), mk_bool(True)), (s.fork(("if", self.short(a0), False)), mk_bool(False))]
            for s1, b in conds:
                if not b[1]:
                    yield s1, none
                elif method == "then_some":
                    yield s1, some(args[1])
                elif args[1][0] == "closure" and len(args[1]) == 4:
                    for s2, r in self.apply_closure(args[1], [], s1):
                        yield s2, some(r)
                else:
                    yield s1, some(("call", None, [args[1]]))
        elif c.startswith("core::option::Option") and method in ("copied", "cloned") and len(args) == 1:
            yield s, a0
        elif c.startswith("core::result::Result") and method == "ok" and len(args) == 1 and a0[0] == "v" and a0[1] in ("Ok", "Err"):
            yield s, (some(a0[2][0]) if a0[1] == "Ok" else none)
        elif c.startswith("core::option::Option") and method in ("unwrap_or", "unwrap_or_default") and is_opt(a0) and (a0[1] == "Some" or len(args) == 2):
            yield s, (a0[2][0] if a0[1] == "Some" else args[1])
        elif c.startswith("core::result::Result") and method in ("is_ok", "is_err") and len(args) == 1 and a0[0] == "v" and a0[1] in ("Ok", "Err"):
            yield s, mk_bool((a0[1] == "Ok") == (method == "is_ok"))
        elif c.startswith("core::option::Option") and method in ("is_some", "is_none") and is_opt(a0):
            yield s, mk_bool((a0[1] == "Some") == (method == "is_some"))
        elif c.startswith("core::slice::<impl [T]>::get") and len(args) == 2 and a0[0] == "array" and len(a0) > 1 and args[1][0] == "lit" and isinstance(args[1][1], int):
            yield s, (some(a0[1][args[1][1]]) if 0 <= args[1][1] < len(a0[1]) else none)
        elif c.startswith("core::slice::<impl [T]>::len") and len(args) == 1 and a0[0] == "array" and len(a0) > 1:
            yield s, ("lit", len(a0[1]))
        elif (c.startswith("core::convert::num::") or c in ("core::convert::From::from", "core::convert::Into::into")) and len(args) == 1 and a0[0] == "lit" and isinstance(a0[1], int):
            yield s, a0
        elif method in ("abs", "unsigned_abs") and c.startswith("core::num::") and len(args) == 1 and a0[0] == "lit" and isinstance(a0[1], int):
            yield s, ("lit", abs(a0[1]))
        elif method in ("rem", "div", "add", "sub", "mul") and c.startswith("core::ops::arith::") and len(args) == 2:
            yield s, self.binop({"rem": "%", "div": "/", "add": "+", "sub": "-", "mul": "*"}[method], args[0], args[1])
        elif callee is not None and callee.startswith("local:") and False:
            pass

    def ev_Array(self, e, st):
        if self.ints and "es" in e:
            def rec(i, s, acc):
                if i == len(e["es"]):
                    yield s, ("array", list(acc))
                    return
                for s2, v in self.ev(e["es"][i], s):
                    yield from rec(i + 1, s2, acc + [v])
            yield from rec(0, st, [])
            return
        yield st, ("array",)

    def ev_Call(self, e, st):
        """(vecs mode) a local handed to any function as `&mut local` is unknown afterwards: writes through a reference argument are not modelled"""
        muts = []
        if getattr(self, "vecs", False):
            for a in e.get("args", []):
                while isinstance(a, dict) and a.get("k") in ("DropTemps", "Paren"):
                    a = a.get("e")
                if isinstance(a, dict) and a.get("k") == "AddrOf" and a.get("mut"):
                    t = a.get("e")
                    while isinstance(t, dict) and t.get("k") in ("DropTemps", "Paren"):
                        t = t.get("e")
                    if isinstance(t, dict) and t.get("k") == "Path" and t.get("res") == "local":
                        muts.append(t["name"])
        if not muts:
            yield from self._ev_call(e, st)
            return
        for s, v in self._ev_call(e, st):
            s2 = s.fork()
            for m in muts:
                s2.env[m] = ("unknown", "written through a `&mut` argument")
            yield s2, v

    def _ev_call(self, e, st):
        if getattr(self, "vecs", False) and e.get("m") == "vec!" and re.search(r"into_vec|box_assume_init_into_vec", str(e.get("callee") or "")):
            # `vec![a, b]`: the array literal inside the macro's expansion
            arrs = []

            def find(n):
                if isinstance(n, dict):
                    if n.get("k") == "Array":
                        arrs.append(n)
                        return
                    for v in n.values():
                        if isinstance(v, (dict, list)):
                            find(v)
                elif isinstance(n, list):
                    for x in n:
                        find(x)
            find(e.get("args", []))
            if len(arrs) == 1:
                yield from self.ev(arrs[0], st)
                return
        callee = e.get("callee")
        if callee is None and isinstance(e.get("f"), dict):
            f = e["f"]
            while f.get("k") in ("AddrOf",) or (f.get("k") == "Unary" and f.get("op") == "*"):
                f = f.get("e") or f.get("a")
            if f.get("k") == "Path" and f.get("res") == "local":
                callee = "local:" + f["name"]
                # a call through a local that holds a function item (a function passed as an argument of an expanded helper) is a call of that function
                fv = st.env.get(f["name"])
                if isinstance(fv, tuple) and len(fv) == 2 and fv[0] == "def" and isinstance(fv[1], str) and self.F.hir.get(fv[1]) is not None:
                    callee = fv[1]

        def rec(i, s, acc):
            if i == len(e.get("args", [])):
                yield s, acc
                return
            for s2, v in self.ev(e["args"][i], s):
                yield from rec(i + 1, s2, acc + [v])
        for s, args in rec(0, st, []):
            if callee is None:
                yield s, ("call", None, args)
                continue
            dk = e.get("dk", "")
            if "Ctor" in dk:
                variant = callee.split("::")[-1]
                if callee == VALUE + "Null":
                    yield s, ("v", "Null", [])
                else:
                    yield s, ("v", variant, args)
                continue
            if callee in ("core::convert::From::from", "alloc::boxed::Box::<T>::new", "core::hint::must_use") or callee.endswith("::Box::<T>::new") or \
                    (callee.endswith("::from") and len(args) == 1 and "Box" in (e.get("self_ty_s") or "")):
                yield s, args[0] if args else ("unit",)
                continue
            self.calls_seen.append(callee)
            if self.call_hook:
                self.recv_local = None
                r = self.call_hook(callee, args, s)
                if r is not None:
                    if isinstance(r, dict):
                        # {"env": {local: value}, "val": value}: the call updates locals (a `&mut` receiver / argument) on this path
                        s2 = s.fork()
                        s2.env.update(r.get("env", {}))
                        yield s2, r["val"]
                    elif isinstance(r, list):
                        for cond, val in r:
                            yield s.fork(cond), val
                    else:
                        yield s, r
                    continue
            if callee in self.inline:
                yield from self.inline_call(callee, args, s)
                continue
            if self.ints:
                if callee.startswith("local:") and s.env.get(callee[6:], ("?",))[0] == "closure" and len(s.env[callee[6:]]) == 4:
                    yield from self.apply_closure(s.env[callee[6:]], args, s)
                    continue
                rs = list(self.builtin(callee, callee.split("::")[-1], args, s))
                if rs:
                    yield from rs
                    continue
            yield s, ("call", callee, args)

    def ev_MethodCall(self, e, st):
        callee = e.get("callee") or e.get("method")
        method = e.get("method")
        for s0, recv in self.ev(e["recv"], st):
            def rec(i, s, acc):
                if i == len(e.get("args", [])):
                    yield s, acc
                    return
                for s2, v in self.ev(e["args"][i], s):
                    yield from rec(i + 1, s2, acc + [v])
            for s, args in rec(0, s0, []):
                if method in TRANSPARENT_METHODS and not args:
                    th = getattr(self, "transparent_hook", None)
                    r = th(callee, method, recv, s) if th else None
                    if r is None and getattr(self, "vecs", False) and method == "to_string" and not (recv[0] == "lit" and isinstance(recv[1], str)):
                        # folding tables: the text of a value is not the value (text order / length / equality differ); integers print as their digits
                        r = ("lit", str(recv[1])) if recv[0] == "lit" and isinstance(recv[1], int) and not isinstance(recv[1], bool) else ("unknown", "text of a value")
                    yield s, (r if r is not None else recv)
                    continue
                if method == "cmp" and len(args) == 1:
                    if self.ints and recv[0] == "tuple" and args[0][0] == "tuple" and len(recv[1]) == len(args[0][1]) and \
                            all(x[0] == "lit" and isinstance(x[1], int) and not isinstance(x[1], bool) for x in recv[1] + args[0][1]):
                        x, y = [q[1] for q in recv[1]], [q[1] for q in args[0][1]]          # tuples of integers compare lexicographically
                        yield s, ("v", "Less" if x < y else "Greater" if x > y else "Equal", [])
                        continue
                    if self.ints and all(x[0] == "lit" and isinstance(x[1], int) and not isinstance(x[1], bool) for x in (recv, args[0])):
                        yield s, ("v", "Less" if recv[1] < args[0][1] else "Greater" if recv[1] > args[0][1] else "Equal", [])
                        continue
                    yield s, ("ord", recv, args[0])
                    continue
                if method in ("eq", "ne") and len(args) == 1:
                    yield s, canon_cmp("==" if method == "eq" else "!=", recv, args[0])
                    continue
                if method == "zip" and len(args) == 1 and (callee or "").startswith("core::option::Option"):
                    a, b = recv, args[0]
                    if a[0] == "v" and b[0] == "v" and a[1] in ("Some", "None") and b[1] in ("Some", "None"):
                        yield s, (("v", "Some", [("tuple", [a[2][0], b[2][0]])]) if a[1] == "Some" and b[1] == "Some" else ("v", "None", []))
                        continue
                self.calls_seen.append(callee)
                rl = e["recv"]
                while rl.get("k") == "AddrOf" or (rl.get("k") == "Unary" and rl.get("op") == "*"):
                    rl = rl.get("e") or rl.get("a")
                self.recv_local = rl.get("name") if rl.get("k") == "Path" and rl.get("res") == "local" else None
                self.recv_path = self.recv_path_of(e["recv"])
                rpath = self.recv_path
                self.cur_ty = self.node_type(e)
                if self.call_hook:
                    r = self.call_hook(callee, [recv] + args, s)
                    if r is not None:
                        if isinstance(r, dict):
                            s2 = s.fork()
                            s2.env.update(r.get("env", {}))
                            if "put" in r and rpath is not None:
                                self.put(s2, rpath, r["put"])          # the call changes its receiver (a local or a field of a tracked record)
                            yield s2, r["val"]
                        elif isinstance(r, list):
                            for cond, val in r:
                                yield s.fork(cond), val
                        else:
                            yield s, r
                        continue
                if callee in self.inline:
                    if getattr(self, "vecs", False) and rpath is not None and isinstance(recv, tuple) and recv and recv[0] == "rec":
                        hh = self.F.hir.get(callee)
                        p0 = (hh or {}).get("params", [{}])[0] if hh and hh.get("params") else {}
                        t0 = ""
                        try:
                            t0 = self.F.crates[hh["_crate"]]["types"][p0.get("t")]
                        except (KeyError, IndexError, TypeError):
                            pass
                        if t0.startswith("&mut "):
                            self._writeback = rpath
                    yield from self.inline_call(callee, [recv] + args, s)
                    continue
                if self.ints:
                    rs = list(self.builtin(callee, method, [recv] + args, s))
                    if rs:
                        yield from rs
                        continue
                if getattr(self, "vecs", False) and rpath is not None and isinstance(recv, tuple) and recv[0] in ("array", "iterv") and method not in READ_ONLY_METHODS:
                    s = s.fork()
                    self.put(s, rpath, ("unknown", "method %s of a tracked vector is not modelled" % method))
                yield s, ("call", callee, [recv] + args)

    @staticmethod
    def _loops_in(n):
        if isinstance(n, dict):
            if n.get("k") == "Loop":
                yield n
                return
            for v in n.values():
                if isinstance(v, (dict, list)):
                    yield from Evaluator._loops_in(v)
        elif isinstance(n, list):
            for x in n:
                yield from Evaluator._loops_in(x)

    def _mut_source(self, e):
        """for `for x in v.iter_mut()` / `for (i, x) in v.iter_mut().enumerate()` / `for x in &mut v`: (path of v, name bound to the element, enumerated?)"""
        it = e.get("e")
        while isinstance(it, dict) and it.get("k") in ("DropTemps", "Paren"):
            it = it.get("e")
        if isinstance(it, dict) and it.get("k") == "Call" and it.get("args"):
            it = it["args"][0]
        enum = False
        while isinstance(it, dict) and it.get("k") in ("DropTemps", "Paren"):
            it = it.get("e")
        if isinstance(it, dict) and it.get("k") == "MethodCall" and it.get("method") == "enumerate":
            enum = True
            it = it.get("recv")
        src = None
        if isinstance(it, dict) and it.get("k") == "MethodCall" and it.get("method") == "iter_mut":
            src = self.recv_path_of(it.get("recv"))
        elif isinstance(it, dict) and it.get("k") == "AddrOf" and it.get("mut"):
            src = self.recv_path_of(it.get("e"))
        if src is None:
            return None
        # the element's binding: `x` or `(i, x)`
        some = None
        for lp in self._loops_in(e["arms"]):
            for arm, _ in ((a, None) for a in self._some_arms(lp)):
                some = arm
        if some is None:
            return None
        sub = some["p"]["ps"][0] if some["p"].get("ps") else some["p"]["fields"][0]["p"]
        while sub.get("k") in ("Ref", "Guard") and "p" in sub:
            sub = sub["p"]
        if not enum and sub.get("k") == "Bind":
            return (src, sub["name"], False)
        if enum and sub.get("k") == "Tuple" and len(sub.get("ps", [])) == 2:
            q = sub["ps"][1]
            while q.get("k") in ("Ref", "Guard") and "p" in q:
                q = q["p"]
            if q.get("k") == "Bind":
                return (src, q["name"], True)
        return None

    @staticmethod
    def _some_arms(lp):
        out = []

        def find(n):
            if isinstance(n, dict):
                if n.get("k") == "Match" and n.get("src") == "ForLoopDesugar":
                    for arm in n.get("arms", []):
                        if arm["p"].get("k") in ("TupleStruct", "Struct") and arm["p"].get("path", "").endswith("Some"):
                            out.append(arm)
                    return
                for v in n.values():
                    if isinstance(v, (dict, list)):
                        find(v)
            elif isinstance(n, list):
                for x in n:
                    find(x)
        find(lp)
        return out

    def get_path(self, s, path):
        name, fields = path
        v = s.env.get(name)
        for f in fields:
            if not (isinstance(v, tuple) and v and v[0] == "rec" and f in v[1]):
                return None
            v = v[1][f]
        return v

    def put(self, s, path, value):
        """store a value at a receiver path (local, fields..): the local itself, or a field of the record it holds"""
        name, fields = path

        def upd(v, fs):
            if not fs:
                return value
            if not (isinstance(v, tuple) and v and v[0] == "rec"):
                return ("unknown", "write into an unknown record")
            d = dict(v[1])
            d[fs[0]] = upd(d.get(fs[0], ("unknown", "absent field")), fs[1:])
            return ("rec", d) + tuple(v[2:])
        s.env[name] = upd(s.env.get(name), list(fields))

    @staticmethod
    def recv_path_of(e):
        """(local, (field, ..)) of a receiver expression `x`, `x.f`, `self.f.g` (through borrows and derefs); None otherwise"""
        fields = []
        while isinstance(e, dict):
            k = e.get("k")
            if k in ("AddrOf", "DropTemps", "Paren") or (k == "Unary" and e.get("op") == "*"):
                e = e.get("e") or e.get("a")
            elif k == "Field":
                fields.append(e.get("name"))
                e = e.get("e")
            elif k == "Path" and e.get("res") == "local":
                return (e["name"], tuple(reversed(fields)))
            else:
                return None
        return None

    def inline_call(self, callee, args, s):
        """evaluate the callee's body with the actual arguments; path conditions flow through, the callee's return value is the result"""
        self._depth = getattr(self, "_depth", 0) + 1
        try:
            # the counter also counts earlier calls on the same path whose generators are still suspended (evaluation continues inside their yield), so the bound must leave room for a
            # sequence of expanded calls, not only for their nesting
            h = self.F.hir_fn(callee) if self._depth <= 40 else None
            if h is not None:
                self.inlined.add(callee)
            if h is None:
                yield s, ("call", callee, args)
                return
            sub = State({}, s.conds)
            for p, a in zip(h["params"], args):
                self.match(p, a, sub.env)
            outer_crate = getattr(self, "crate", None)
            self.crate = h.get("_crate", outer_crate)
            try:
                wb = getattr(self, "_writeback", None)
                self._writeback = None
                for s2, v in self.ev(h["body"], sub):
                    out = State(s.env, s2.conds, s.ret, s.brk)
                    if wb is not None and "self" in s2.env:
                        # a `&mut self` method called on a tracked record: what it left in `self` is the receiver's new value
                        out = out.fork()
                        self.put(out, wb, s2.env["self"])
                    yield out, (s2.ret if s2.ret is not None else v)
            finally:
                self.crate = outer_crate
        finally:
            self._depth -= 1

    # ------------------------------------------------------------------ helpers
    def short(self, v, depth=0):
        if depth > 3:
            return "..."
        if isinstance(v, tuple):
            if v[0] == "call":
                return "call %s(%s)" % ((v[1] or "?").split("::")[-1], ", ".join(self.short(a, depth + 1) for a in v[2]))
            if v[0] == "sym":
                return v[1]
            if v[0] == "v":
                return "%s(%s)" % (v[1], ", ".join(self.short(a, depth + 1) for a in v[2]))
            return "(" + " ".join(self.short(x, depth + 1) for x in v) + ")"
        if isinstance(v, list):
            return "[" + ", ".join(self.short(x, depth + 1) for x in v) + "]"
        return str(v)

    def pat_text(self, p):
        k = p.get("k")
        if k in ("TupleStruct", "Struct", "Path"):
            subs = p.get("ps") or []
            return "%s(%s)" % (p.get("path", "").split("::")[-1], ",".join(self.pat_text(q) for q in subs))
        if k == "Bind":
            return p["name"]
        if k in ("Ref", "Guard"):
            return self.pat_text(p["p"])
        if k == "Lit":
            return str(p.get("v"))
        if k == "Or":
            return "|".join(self.pat_text(q) for q in p["ps"])
        if k == "Tuple":
            return "(" + ",".join(self.pat_text(q) for q in p["ps"]) + ")"
        return "_"


def value(variant, *fields):
    return ("v", variant, list(fields))


def sym(n):
    return ("sym", n)


def closure_of(fn_hir, index=0):
    """the index-th closure expression in a function body (evaluator builders return Box::new(move |scope| ...))"""
    found = []

    def f(n):
        if isinstance(n, dict):
            if n.get("k") == "Closure":
                found.append(n)
                return
            for v in n.values():
                if isinstance(v, (dict, list)):
                    f(v)
        elif isinstance(n, list):
            for x in n:
                f(x)
    f(fn_hir["body"])
    return found[index] if index < len(found) else None
