#!/bin/sh
# usage: check.sh <ID> <quick|thorough>
exec python3 /verif/engine/check.py "$1" "$2"
